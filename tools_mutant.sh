#!/bin/bash
# usage: tools_mutant.sh <patch> <check args...>   -- applies patch to /repo, runs ./check, reverts (never commits)
set -u
PATCH="$1"; shift
cd /repo && git diff --quiet || { echo "/repo not clean"; exit 9; }
git -C /repo apply "$PATCH" || { echo "patch does not apply"; exit 9; }
cd /verif && VERIF_EVIDENCE_DIR=/verif/work/evidence_seeded ./check "$@"; rc=$?
git -C /repo checkout -- . 
echo "exit=$rc"
