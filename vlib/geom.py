"""Harness-side geometry helpers: rational rotation parametrisations, symbolic grids, and an
independent reference model of the ITK image geometry (trusted, see DESIGN.md 2.4)."""
from __future__ import annotations

import itertools
from fractions import Fraction
from typing import List, Optional, Sequence

import torch

AXES = ("grid", "cube", "cube_corners", "world")

# witnesses: dyadic rationals, exactly representable in float32
SPACINGS = [[0.75, 1.25, 2.0], [1.5, 0.5, 1.25], [2.0, 0.75, 0.5], [1.0, 1.0, 1.0]]
CENTERS = [[1.0, -2.0, 3.0], [-0.5, 4.0, 0.25], [10.0, -7.5, 2.5], [0.0, 0.0, 0.0]]
QUATS = [[1.0, 0.25, -0.5, 0.125], [0.5, -1.0, 0.25, 0.75], [1.0, 0.0, 0.0, 0.5], [0.25, 1.0, -0.75, 0.5]]
TANS = [0.5, -0.25, 1.5, 0.125]
SIZES = [[5, 4, 6], [3, 7, 4], [8, 5, 3], [4, 4, 4]]
POINTS = [[[0.5, 0.25, -0.125], [3.0, 1.0, 2.0]], [[-1.0, 0.75, 0.5], [2.5, -3.0, 1.25]]]


def pick(table, seed, k=0):
    return table[(seed + k) % len(table)]


def rot2(t: torch.Tensor) -> torch.Tensor:
    """2-D rotation from t = tan(angle/2): all rotations except angle = pi."""
    t = t.reshape(())
    one = torch.ones((), dtype=t.dtype)
    d = one + t * t
    c = (one - t * t) / d
    s = (2 * t) / d
    return torch.stack([torch.stack([c, -s]), torch.stack([s, c])])


def rot3(q: torch.Tensor) -> torch.Tensor:
    """3-D rotation from a non-zero quaternion (a, b, c, d): q R(q) / |q|^2 covers SO(3)."""
    a, b, c, d = q[0], q[1], q[2], q[3]
    n = a * a + b * b + c * c + d * d
    R = torch.stack(
        [
            torch.stack([a * a + b * b - c * c - d * d, 2 * (b * c - a * d), 2 * (b * d + a * c)]),
            torch.stack([2 * (b * c + a * d), a * a - b * b + c * c - d * d, 2 * (c * d - a * b)]),
            torch.stack([2 * (b * d - a * c), 2 * (c * d + a * b), a * a - b * b - c * c + d * d]),
        ]
    )
    return R / n


FLIPS3 = [
    [[1, 0, 0], [0, 1, 0], [0, 0, 1]],
    [[0, 1, 0], [1, 0, 0], [0, 0, 1]],   # permutation (det -1)
    [[-1, 0, 0], [0, 1, 0], [0, 0, 1]],  # axis flip (det -1)
    [[0, 0, 1], [1, 0, 0], [0, 1, 0]],   # cyclic permutation
]
FLIPS2 = [[[1, 0], [0, 1]], [[0, 1], [1, 0]], [[-1, 0], [0, 1]], [[0, -1], [1, 0]]]


def sym_rotation(ctx, name: str, D: int, seed: int = 0, k: int = 0, flip: int = 0) -> torch.Tensor:
    """Symbolic rotation matrix (direction cosines); optional concrete signed permutation factor."""
    if D == 2:
        t = ctx.reals(name + "t", pick(TANS, seed, k), nice=(-4, 4))
        R = rot2(t)
        F = FLIPS2[flip % len(FLIPS2)]
    else:
        q = ctx.reals(name + "q", pick(QUATS, seed, k), nice=(-4, 4))
        if ctx.mode == "sym":
            from symtorch import terms as tm

            qs = [tm.var(f"{name}q{i}") for i in range(4)]
            ctx.pre.append(tm.lt(tm.ZERO, tm.addn([tm.mul(x, x) for x in qs])))
            ctx.nice.append(tm.le(tm.const(Fraction(1, 4)), tm.addn([tm.mul(x, x) for x in qs])))
        R = rot3(q)
        F = FLIPS3[flip % len(FLIPS3)]
    if flip:
        R = R @ torch.tensor(F, dtype=R.dtype)
    return R


def sym_grid(ctx, name: str, D: int, seed: int = 0, k: int = 0, sizes="int", align_corners: bool = True, flip: int = 0,
             min_size: int = 2, rotation: bool = True, origin: bool = False, center_wit=None):
    """Grid with symbolic spacing, center (or origin), rotation and (optionally) integer-variable sizes."""
    from deepali.core.grid import Grid

    s = ctx.reals(name + "s", pick(SPACINGS, seed, k)[:D], gt=0, nice=(0.125, 8))
    c = ctx.reals(name + ("o" if origin else "c"), list(center_wit) if center_wit is not None else pick(CENTERS, seed, k)[:D], nice=(-16, 16))
    R = sym_rotation(ctx, name + "r", D, seed, k, flip) if rotation else None
    if sizes == "int":
        n = ctx.ints(name + "n", [max(v, min_size + (v % 3)) for v in pick(SIZES, seed, k)[:D]], ge=min_size, le=4096)
    elif sizes is None:
        n = pick(SIZES, seed, k)[:D]
    else:
        n = list(sizes)
    kw = dict(size=n, spacing=s, align_corners=align_corners)
    if R is not None:
        kw["direction"] = R
    if origin:
        kw["origin"] = c
    else:
        kw["center"] = c
    g = Grid(**kw)
    return g, dict(s=s, c=c, R=R if R is not None else torch.eye(D), n=n)


def related_grid(ctx, g, P, name: str, D: int, relation: str, align_corners: bool = True):
    """Second grid in a special relation to g: 'same-domain' (same cube, other sampling),
    'same-sampling' (same size/spacing/direction, other center)."""
    from deepali.core.grid import Grid

    if relation == "same-domain":
        m = ctx.ints(name + "n", [k + 3 for k in pick(SIZES, ctx.seed, 2)[:D]], ge=2, le=4096)
        n = torch.as_tensor(P["n"], dtype=P["s"].dtype)
        s2 = P["s"] * (n - 1) / (m - 1) if align_corners else P["s"] * n / m
        h = Grid(size=m, spacing=s2, center=P["c"], direction=P["R"], align_corners=align_corners)
        return h, dict(s=s2, c=P["c"], R=P["R"], n=m)
    if relation == "same-sampling":
        c2 = ctx.reals(name + "c", pick(CENTERS, ctx.seed, 2)[:D], nice=(-16, 16))
        h = Grid(size=P["n"], spacing=P["s"], center=c2, direction=P["R"], align_corners=align_corners)
        return h, dict(s=P["s"], c=c2, R=P["R"], n=P["n"])
    raise ValueError(relation)


# ---------------------------------------------------------------------- reference model (ITK image geometry)
def ref_index_to_world(i: torch.Tensor, origin, spacing, R) -> torch.Tensor:
    """P = O + R diag(s) i   (ITK software guide, 'Image origin, spacing and direction')."""
    return origin + (i * spacing) @ R.t()


def ref_world_to_index(p: torch.Tensor, origin, spacing, R) -> torch.Tensor:
    """i = diag(1/s) R^T (P - O)."""
    return ((p - origin) @ R) / spacing


def ref_origin_from_center(center, spacing, R, n) -> torch.Tensor:
    return center - ((torch.as_tensor(n, dtype=spacing.dtype) - 1) / 2 * spacing) @ R.t()


def ref_map(axes: str, to_axes: str, x: torch.Tensor, P: dict, n=None) -> torch.Tensor:
    """Independent reference for Grid axes conversions via continuous index coordinates."""
    n = torch.as_tensor(P["n"] if n is None else n, dtype=x.dtype)
    s, c, R = P["s"], P["c"], P["R"]
    origin = ref_origin_from_center(c, s, R, n) if not P.get("origin_given") else c
    if axes == "grid":
        i = x
    elif axes == "cube_corners":
        i = (x + 1) * (n - 1) / 2
    elif axes == "cube":
        i = ((x + 1) * n - 1) / 2
    else:
        i = ref_world_to_index(x, origin, s, R)
    if to_axes == "grid":
        return i
    if to_axes == "cube_corners":
        return 2 * i / (n - 1) - 1
    if to_axes == "cube":
        return (2 * i + 1) / n - 1
    return ref_index_to_world(i, origin, s, R)


def concrete_grid(D: int, seed: int = 0, k: int = 0, align_corners: bool = True, sizes=None):
    """Concrete oriented anisotropic grid with rational attributes (Pythagorean / rational-quaternion rotation)."""
    from deepali.core.grid import Grid

    R = rot2(torch.tensor(pick(TANS, seed, k), dtype=torch.float64)) if D == 2 else rot3(torch.tensor(pick(QUATS, seed, k), dtype=torch.float64))
    return Grid(size=list(sizes) if sizes is not None else pick(SIZES, seed, k)[:D], spacing=pick(SPACINGS, seed, k)[:D], center=pick(CENTERS, seed, k)[:D], direction=R.float(), align_corners=align_corners)
