"""Harness context shared by all checks: symbolic mode (engine + solver) and replay mode (plain torch)."""
from __future__ import annotations

import hashlib
import json
import math
import os
import random
import time
import traceback
from fractions import Fraction
from typing import Any, Callable, Dict, List, Optional, Sequence

import numpy as np
import torch

from symtorch import terms as tm
from symtorch.engine import Engine, UnsupportedOp, ConsistencyError
from symtorch.solve import Z3Solver, Stats
from symtorch.terms import T

TIERS = {
    "quick": dict(timeout_ms=20000, path_bound=6, cvc5=False, ob_wall=240),
    "thorough": dict(timeout_ms=90000, path_bound=32, cvc5=True, ob_wall=900, check_wall=1800),
}

REPLAY_RTOL = 2e-4
REPLAY_ATOL = 2e-5
ROOT = os.path.dirname(os.path.dirname(os.path.abspath(__file__)))
NICE_MARGIN = Fraction(1, 50)


def _nested(x):
    if isinstance(x, torch.Tensor):
        return x.detach().tolist()
    if isinstance(x, np.ndarray):
        return x.tolist()
    return x


class Candidate:
    def __init__(self, index, what, kind, model, detail):
        self.index = index
        self.what = what
        self.kind = kind  # 'eq' | 'true' | 'crash' | 'den'
        self.model = model
        self.detail = detail


class Ctx:
    """mode 'sym': builds symbolic tensors, decides assertions with the solver.
    mode 'replay': builds concrete float64 tensors from a model, evaluates assertions numerically."""

    def __init__(self, mode: str, tier: str = "quick", seed: int = 0, model: Optional[dict] = None, engine: Optional[Engine] = None):
        self.mode = mode
        self.tier = tier
        self.seed = seed
        self.rng = random.Random(seed)
        self.model = model or {}
        self.eng = engine
        cfg = TIERS[tier]
        self.stats = Stats()
        self.solver = Z3Solver(cfg["timeout_ms"], self.stats, cvc5=cfg["cvc5"]) if mode == "sym" else None
        if engine is not None:
            engine.lemma_solver = self.solver.poly_equal
        self.pre: List[T] = []
        self.nice: List[T] = []
        self.vars: Dict[str, dict] = {}
        self.n_assert = 0
        self.results: List[dict] = []
        self.candidates: List[Candidate] = []
        self.replay_failures: List[dict] = []
        self.replay_target: Optional[int] = None
        self.samples: List[str] = []
        self.notes: List[str] = []
        self.check_finite = True  # ctx.grad: also ask whether a divisor of the backward pass can vanish
        self.counters: Dict[str, int] = {}  # check-specific measured counts reported in evidence
        self.bounds: Dict[str, Any] = {}
        self.dtype = torch.float32
        self.exact_rounding = False
        self.rounding_stubbed = 0
        self.replay_double = True
        self.rtol, self.atol = REPLAY_RTOL, REPLAY_ATOL

    # ------------------------------------------------------------------ inputs
    def _witness(self, w):
        """A witness given as callable(rng) or literal."""
        return w(self.rng) if callable(w) else w

    def reals(self, name, wit, gt=None, ge=None, lt=None, le=None, nice=(-64, 64), dtype=None, requires_grad=False):
        """Real-valued symbolic tensor with witness `wit` (nested list / number)."""
        dtype = dtype or self.dtype
        wit = self._witness(wit)
        t = torch.tensor(wit, dtype=torch.float64)
        names = [f"{name}{i}" if t.numel() > 1 or t.ndim > 0 else name for i in range(t.numel())]
        self.vars[name] = dict(kind="real", shape=list(t.shape), gt=gt, ge=ge, lt=lt, le=le)
        if self.mode == "replay":
            flat = t.reshape(-1).clone()
            for i, n in enumerate(names):
                if n in self.model and self.model[n] is not None:
                    flat[i] = float(self.model[n])
            r = flat.reshape(t.shape).to(torch.float64 if (dtype == torch.float32 and self.replay_double) else dtype)
            if requires_grad:
                r.requires_grad_(True)
            return r
        t = self._apply_override(t, names)
        r = t.to(dtype)
        if requires_grad:
            r.requires_grad_(True)
        self.eng.symbolic(r, name)
        for n in names:
            v = tm.var(n)
            if gt is not None:
                self.pre.append(tm.lt(tm.const(gt), v))
            if ge is not None:
                self.pre.append(tm.le(tm.const(ge), v))
            if lt is not None:
                self.pre.append(tm.lt(v, tm.const(lt)))
            if le is not None:
                self.pre.append(tm.le(v, tm.const(le)))
            if nice is not None:
                lo = nice[0] if gt is None and ge is None else max(nice[0], gt if gt is not None else ge)
                hi = nice[1] if lt is None and le is None else min(nice[1], lt if lt is not None else le)
                self.nice += [tm.le(tm.const(lo), v), tm.le(v, tm.const(hi))]
                if gt is not None:
                    self.nice.append(tm.le(tm.const(Fraction(gt) + Fraction(1, 16)), v))
        return r

    def ints(self, name, wit, ge=None, le=None, dtype=torch.float32):
        """Integer-valued symbolic tensor (stored in a float or int tensor)."""
        wit = self._witness(wit)
        t = torch.tensor(wit, dtype=torch.float64)
        names = [f"{name}{i}" if t.numel() > 1 or t.ndim > 0 else name for i in range(t.numel())]
        self.vars[name] = dict(kind="int", shape=list(t.shape), ge=ge, le=le)
        if self.mode == "replay":
            flat = t.reshape(-1).clone()
            for i, n in enumerate(names):
                if n in self.model and self.model[n] is not None:
                    flat[i] = float(self.model[n])
            return flat.reshape(t.shape).to(dtype)
        t = self._apply_override(t, names)
        r = t.to(dtype)
        self.eng.symbolic(r, name, kind="int")
        for n in names:
            v = tm.var(n, "int")
            if ge is not None:
                self.pre.append(tm.le(tm.const(ge), v))
            if le is not None:
                self.pre.append(tm.le(v, tm.const(le)))
            self.nice += [tm.le(v, tm.const(min(le if le is not None else 64, 64)))]
        return r

    def witness_cells(self):
        """Interpolation with symbolic coordinates: resolve cells at the witness (no lemma chaining)."""
        if self.mode == "sym":
            self.eng.gs_mode = "witness"

    def assume_cmp(self, a, op: str, b):
        """Precondition a <op> b element-wise, built on terms (no torch comparison is executed)."""
        if self.mode == "replay":
            ta = torch.as_tensor(_nested(a), dtype=torch.float64)
            tb = torch.as_tensor(_nested(b), dtype=torch.float64)
            ok = {"<=": ta <= tb + 1e-4, ">=": ta >= tb - 1e-4, "<": ta < tb + 1e-4, ">": ta > tb - 1e-4}[op]
            if not bool(ok.all()):
                self.assumption_violated = True  # models satisfy Pre exactly; in float replay only note it
            return
        ta, tb = self.terms_of(a), self.terms_of(b)
        f = {"<=": tm.le, ">=": tm.ge, "<": tm.lt, ">": tm.gt}[op]
        for x, y in zip(np.broadcast_to(ta, np.broadcast_shapes(ta.shape, tb.shape)).reshape(-1), np.broadcast_to(tb, np.broadcast_shapes(ta.shape, tb.shape)).reshape(-1)):
            self.pre.append(f(x, y))

    def _apply_override(self, t, names):
        ov = getattr(self, "override", None)
        if not ov:
            return t
        flat = t.reshape(-1).clone()
        for i, n in enumerate(names):
            if n in ov and ov[n] is not None:
                flat[i] = float(ov[n])
        return flat.reshape(t.shape)

    def binary(self, name, wit, dtype=None):
        """0/1-valued symbolic tensor: every element is ite(b, 1, 0) for a fresh boolean variable b."""
        dtype = dtype or self.dtype
        wit = self._witness(wit)
        t = torch.tensor(wit, dtype=torch.float64)
        names = [f"{name}{i}" for i in range(t.numel())]
        self.vars[name] = dict(kind="bool", shape=list(t.shape))
        if self.mode == "replay":
            flat = t.reshape(-1).clone()
            for i, n in enumerate(names):
                if n in self.model and self.model[n] is not None:
                    flat[i] = 1.0 if self.model[n] else 0.0
            return flat.reshape(t.shape).to(torch.float64 if (dtype == torch.float32 and self.replay_double) else dtype)
        ov = getattr(self, "override", None) or {}
        flat = t.reshape(-1).clone()
        arr = np.empty(t.numel(), dtype=object)
        for i, n in enumerate(names):
            if n in ov and ov[n] is not None:
                flat[i] = 1.0 if ov[n] else 0.0
            b = self.eng.new_var(n, bool(flat[i] > 0.5), "bool")
            arr[i] = tm.ite(b, tm.ONE, tm.ZERO)
        r = flat.reshape(t.shape).to(dtype)
        self.eng.set_terms(r, arr.reshape(tuple(t.shape)))
        return r

    def assume(self, cond, nice_only=False):
        """Add a precondition given as bool tensor (symbolic) / python bool."""
        if self.mode == "replay":
            ok = bool(cond.all()) if isinstance(cond, torch.Tensor) else bool(cond)
            if not ok:
                self.assumption_violated = True
            return
        if isinstance(cond, torch.Tensor):
            ts = self.eng.terms(cond).reshape(-1)
            for t in ts:
                (self.nice if nice_only else self.pre).append(tm.boo(t))
        elif isinstance(cond, T):
            (self.nice if nice_only else self.pre).append(cond)

    # ------------------------------------------------------------------ helpers to get terms
    def terms_of(self, x) -> np.ndarray:
        if isinstance(x, torch.Tensor):
            return self.eng.terms(x)
        if isinstance(x, np.ndarray) and x.dtype == object:
            return x
        if isinstance(x, (int, float, Fraction)):
            a = np.empty((), dtype=object)
            a[()] = tm.const(x)
            return a
        if isinstance(x, T):
            a = np.empty((), dtype=object)
            a[()] = x
            return a
        arr = np.array(x, dtype=object)
        return np.vectorize(lambda v: tm.lift(v), otypes=[object])(arr)

    def _full_pre(self) -> List[T]:
        pc = list(getattr(self, "extra_pre", [])) + self.eng.pc_terms()
        key = (len(self.pre), len(pc))
        if getattr(self, "_pre_cache_key", None) != key:
            spc = self.solver.simplify_guards(self.pre, pc, self.eng.evalf)
            self._pre_cache = list(self.pre) + [p for p in spc if p is not tm.TRUE]
            self._pre_cache_key = key
            # equality substitution (solve-eqs on terms): b -> a for every equality test that held on this path
            mp = {}
            for e in self.eng.pc:
                for (a, b) in e.equalities():
                    if mp:
                        a, b = tm.substitute([a, b], mp)
                    if a is b:
                        continue
                    if tm.isc(b) or (not tm.isc(a) and tm.size([b]) < tm.size([a]) and a not in set(tm.postorder([b]))):
                        a, b = b, a
                    if tm.isc(b) or b in set(tm.postorder([a])):
                        continue
                    # keep earlier rules normalised w.r.t. the new one
                    for k in list(mp):
                        mp[k] = tm.substitute([mp[k]], {b: a})[0]
                    mp[b] = a
            self._subst = mp
        return list(self._pre_cache)

    def _witness_ok(self, pre) -> bool:
        try:
            return all(bool(self.eng.evalq(p)) for p in pre)
        except KeyError:  # a sub-path assumption mentions inputs the harness has not declared yet
            return False
        except (tm.Inexact, ZeroDivisionError):
            try:
                return all(bool(self.eng.evalf(p)) for p in pre)
            except KeyError:
                return False

    def _simp(self, pre, arr: np.ndarray) -> np.ndarray:
        flat = list(arr.reshape(-1))
        if getattr(self, "_subst", None):
            flat = tm.substitute(flat, self._subst)
        out = self.solver.simplify_guards(pre, flat, self.eng.evalf)
        res = np.empty(len(out), dtype=object)
        for i, t in enumerate(out):
            res[i] = t
        return res.reshape(arr.shape)

    # ------------------------------------------------------------------ assertions
    def _targeted(self, i, what) -> bool:
        """Replay: evaluate only the targeted assertion (matched by sequence number or by its description)."""
        t = self.replay_target
        if t is None:
            return True
        if isinstance(t, tuple):
            return i == t[0] or what == t[1]
        return i == t

    def _next(self, what):
        i = self.n_assert
        self.n_assert += 1
        return i

    def eq(self, a, b, what: str = "", tol: Optional[float] = None):
        """Obligation: a == b element-wise for all admissible values."""
        i = self._next(what)
        if self.mode == "replay":
            if not self._targeted(i, what):
                return
            ta = torch.as_tensor(_nested(a), dtype=torch.float64)
            tb = torch.as_tensor(_nested(b), dtype=torch.float64)
            if ta.shape != tb.shape:
                try:
                    ta, tb = torch.broadcast_tensors(ta, tb)
                except RuntimeError:
                    self.replay_failures.append(dict(index=i, what=what, kind="shape", detail=f"{tuple(ta.shape)} vs {tuple(tb.shape)}"))
                    return
            bad = ~((ta - tb).abs() <= self.atol + self.rtol * tb.abs())
            bad |= ~(torch.isfinite(ta) & torch.isfinite(tb))
            if bool(bad.any()):
                k = int(bad.reshape(-1).nonzero()[0])
                self.replay_failures.append(dict(index=i, what=what, kind="eq", detail=f"element {k}: got {ta.reshape(-1)[k].item():.9g} expected {tb.reshape(-1)[k].item():.9g}"))
            return
        self._eq_sym(i, what, self.terms_of(a), self.terms_of(b))

    def _eq_sym(self, i, what, ta, tb, kind="eq", extra=(), skip_den=False):
        if ta.shape != tb.shape:
            try:
                shape = np.broadcast_shapes(ta.shape, tb.shape)
                ta, tb = np.broadcast_to(ta, shape), np.broadcast_to(tb, shape)
            except ValueError:
                self.results.append(dict(index=i, what=what, status="violated", why=f"shape {ta.shape} vs {tb.shape}"))
                self.candidates.append(Candidate(i, what, kind, dict(self.eng.envq), f"shape {ta.shape} vs {tb.shape}"))
                return
        pre = self._full_pre() + list(extra)
        ta, tb = self._simp(pre, ta), self._simp(pre, tb)
        pairs = list(dict.fromkeys(zip(ta.reshape(-1), tb.reshape(-1))))
        res = dict(index=i, what=what, elements=int(ta.size), distinct=len(pairs), nontrivial=0, queries=0, status="proved")
        fv = tm.free_vars([p[0] for p in pairs] + [p[1] for p in pairs])
        res["depends_on"] = sorted({n.rstrip("0123456789") for n in fv})[:12]
        if len(self.samples) < 3 and pairs:
            self.samples.append(f"{what}: {tm.show(pairs[-1][0], 220)} == {tm.show(pairs[-1][1], 120)}")
        # witness-first: exact (or float) evaluation at the witness (only if the witness satisfies Pre & PC)
        wit_ok = self._witness_ok(pre)
        for (l, r) in (pairs if wit_ok else []):
            if l is r:
                continue
            res["nontrivial"] += 1
            try:
                vl, vr = self.eng.evalq(l), self.eng.evalq(r)
                differs = vl != vr
            except (tm.Inexact, ZeroDivisionError):
                fl, fr = self.eng.evalf(l), self.eng.evalf(r)
                differs = not (abs(fl - fr) <= 1e-6 * (1 + abs(fr))) if (fl == fl and fr == fr) else True
            if differs:
                try:
                    fl_, fr_ = float(self.eng.evalf(l)), float(self.eng.evalf(r))
                    tiny = abs(fl_ - fr_) <= 2e-6 * (1.0 + abs(fr_))
                except Exception:
                    tiny = False
                if tiny:
                    # the two sides differ only at float32 resolution: an artefact of identifying float constants with
                    # rationals, not something a replay could confirm - reported as undecided, never as proved
                    res["status"] = "inconclusive"
                    res["why"] = f"sides differ only at float32 resolution at the witness (constant identification): {tm.show(l, 100)} vs {tm.show(r, 100)}"
                    self.results.append(res)
                    return
                res["status"] = "violated"
                res["why"] = f"differs at the witness: {tm.show(l, 160)} vs {tm.show(r, 160)}"
                self.candidates.append(Candidate(i, what, kind, dict(self.eng.envq), res["why"]))
                self.results.append(res)
                return
        base_pre = [p for p in self.pre] + list(extra)
        for (l, r) in pairs:
            if l is r:
                continue
            # first without the path condition (a stronger claim, usually an easier query), then with it
            nb = 30.0 if kind == "grad" else 0.3
            out = self.solver.prove_equal(base_pre, l, r, skip_den=skip_den, norm_budget=nb) if len(pre) > len(base_pre) else {"status": "skip"}
            res["queries"] += 1
            if out["status"] != "unsat":
                out = self.solver.prove_equal(pre, l, r, skip_den=skip_den, norm_budget=0.3 if out["status"] != "skip" else nb)
                res["queries"] += 1
            st = out["status"]
            if st == "unsat":
                continue
            if st in ("sat", "den-sat"):
                model = self._nice_model(pre, l, r, out.get("model"), den=(st == "den-sat"))
                res["status"] = "violated" if st == "sat" else "den"
                res["why"] = out.get("why", f"sat: {tm.show(l, 160)} != {tm.show(r, 160)}")
                self.candidates.append(Candidate(i, what, kind if st == "sat" else "den", model, res["why"]))
                break
            res["status"] = "inconclusive"
            res["why"] = f"solver {st} on {tm.show(l, 120)} == {tm.show(r, 120)}"
            break
        self.results.append(res)


    # ------------------------------------------------------------------ float32 re-interpretation of internal assertions
    def fp_asserts(self, site: str, what: str, timeout_s: float = 60.0):
        """Obligation: an `assert allclose(...)` of the code under test (at a source location containing `site`) cannot
        fail because of float32 rounding. The tolerance test recorded on this path (built in RAW mode, i.e. without
        re-association) is re-interpreted over IEEE binary32 (z3 QF_FP, round-nearest-even) and the solver is asked for
        admissible float32 inputs that falsify it. A model is replayed on the real code in float32; only a reproduced
        AssertionError is reported. `unknown` / timeout is inconclusive; `unsat` holds for the element-wise operation order
        assumed by the translation (stated in evidence)."""
        i = self._next(what)
        if self.mode == "replay":
            return
        import z3

        entries = [e for e in self.eng.pc if e.kind == "branch" and e.outcome and site in e.where]
        res = dict(index=i, what=what, elements=len(entries), distinct=len(entries), nontrivial=len(entries), queries=0, status="proved", fp=True)
        if not entries:
            res["status"] = "inconclusive"
            res["why"] = f"no assertion recorded at {site}"
            self.results.append(res)
            return
        names: Dict[str, object] = {}
        t0 = time.time()
        for e in entries:
            try:
                (goal,), _ = tm.to_z3_fp([e.term], names)
                pres, _ = tm.to_z3_fp(list(self.pre) + self.nice, names)
            except NotImplementedError as ex:
                res["status"] = "inconclusive"
                res["why"] = str(ex)
                break
            s = z3.SolverFor("QF_FP")
            s.set("timeout", int(timeout_s * 1000))
            for p in pres:
                s.add(p)
            for v in names.values():
                s.add(z3.Not(z3.fpIsNaN(v)), z3.Not(z3.fpIsInf(v)))
            s.add(z3.Not(goal))
            s.set("timeout", int(min(timeout_s, 30.0) * 1000))
            smt2_text = "(set-logic QF_FP)\n" + s.to_smt2()  # taken before check(): afterwards z3 prints its bit-blasted form
            r = s.check()
            res["queries"] += 1
            self.stats.queries += 1
            if str(r) == "unknown":
                # second back end: the cvc5 binary on the same SMT-LIB text (decides float32 `unsat` goals z3 does not finish)
                r = self._cvc5_fp(smt2_text, timeout_s)
                res["cvc5"] = str(r)
                self.stats.cvc5_queries += 1
            self.stats.time += time.time() - t0
            if str(r) == "unsat":
                self.stats.unsat += 1
                continue
            if str(r) == "sat" and res.get("cvc5") == "sat":
                res["status"] = "inconclusive"
                res["why"] = f"cvc5 reports sat on the float32 assertion at {e.where} but no model was extracted (z3 undecided)"
                break
            if str(r) == "sat":
                self.stats.sat += 1
                m = s.model()
                model = dict(self.eng.envq)
                for n_, v in names.items():
                    val = m.eval(v, model_completion=True)
                    q = z3.simplify(z3.fpToReal(val))
                    model[n_] = Fraction(q.numerator_as_long(), q.denominator_as_long())
                res["status"] = "violated"
                res["why"] = f"float32 rounding falsifies the assertion at {e.where}: {tm.show(e.term, 200)}"
                c = Candidate(i, "no exception", "crash", model, f"AssertionError at {e.where} (float32)")
                c.expect_exc = "AssertionError"
                self.candidates.append(c)
                break
            self.stats.unknown += 1
            res["status"] = "inconclusive"
            res["why"] = f"solver {r} (QF_FP, {timeout_s:.0f} s) on the float32 assertion at {e.where}"
            break
        self.results.append(res)

    def _cvc5_fp(self, smt2: str, timeout_s: float) -> str:
        import shutil
        import subprocess
        import tempfile

        exe = shutil.which("cvc5")
        if exe is None:
            return "unknown"
        os.makedirs(os.path.join(ROOT, "work"), exist_ok=True)
        with tempfile.NamedTemporaryFile("w", suffix=".smt2", dir=os.path.join(ROOT, "work"), delete=False) as f:
            f.write(smt2)
            path = f.name
        try:
            p = subprocess.run([exe, f"--tlimit={int(timeout_s * 1000)}", path], capture_output=True, text=True, timeout=timeout_s + 15)
            out = (p.stdout or "") + (p.stderr or "")
            if "(error" in out:
                return "unknown"
            first = (p.stdout or "").strip().splitlines()[:1]
            return first[0] if first and first[0] in ("sat", "unsat") else "unknown"
        except Exception:
            return "unknown"
        finally:
            try:
                os.unlink(path)
            except OSError:
                pass

    # ------------------------------------------------------------------ gradients (C20)
    def grad(self, f, xs, what: str = "", twice: bool = False):
        """Obligation: the gradient autograd returns for the scalar f(*xs) w.r.t. every element of every x in xs equals the
        derivative of the function the forward pass computes, for all admissible values (and is finite: denominators non-zero).

        `f(*xs)` returns the scalar output tensor `y`, or `(y, leaves)` when the leaves to differentiate are tensors created
        inside f from xs (e.g. the Parameter objects of a transform given xs as data).

        Symbolic mode: the forward and the backward ATen operations both run through the engine; the forward term of y is
        differentiated symbolically (terms.diff; non-differentiable nodes give a fresh poison variable) and z3 decides that
        each backward term equals the corresponding partial derivative.
        Replay: autograd on the real code vs. central finite differences of the same function."""
        i = self._next(what)
        if self.mode == "replay":
            if not self._targeted(i, what):
                return
            base = [x.detach().clone() for x in xs]

            def call(vals, need_grad):
                vs = [v.clone().requires_grad_(need_grad) for v in vals]
                out = f(*vs)
                y, leaves = out if isinstance(out, tuple) else (out, vs)
                return y, leaves

            y, leaves = call(base, True)
            # float64 where the operation preserves it, float32 with a matching step size where it casts
            double = all(x.dtype == torch.float64 for x in xs) and y.dtype == torch.float64
            h = 1e-5 if double else 1e-2
            atol, rtol = (1e-5, 1e-3) if double else (3e-2, 5e-2)
            if y.numel() != 1:
                self.replay_failures.append(dict(index=i, what=what, kind="grad", detail=f"output is not a scalar: {tuple(y.shape)}"))
                return
            if not y.requires_grad:
                gs = [None] * len(leaves)
            else:
                gs = torch.autograd.grad(y, leaves, allow_unused=True)
            gs = [torch.zeros_like(b) if g is None else g.detach().reshape(b.shape).to(b.dtype) for g, b in zip(gs, base)]
            if getattr(self, "replay_kind", None) == "den":
                # a denominator of the backward pass vanishes here (a kink / singular point): only finiteness is claimed
                for k, g in enumerate(gs):
                    if not bool(torch.isfinite(g).all()) or not bool(torch.isfinite(y.detach()).all()):
                        self.replay_failures.append(dict(index=i, what=what, kind="grad", detail=f"non-finite gradient w.r.t. input {k} (or non-finite value {y.item()})"))
                        return
                return
            if twice:
                y2, _ = call(base, False)
                if not torch.allclose(y2.detach().double(), y.detach().double(), rtol=1e-4, atol=1e-5):
                    self.replay_failures.append(dict(index=i, what=what, kind="grad", detail=f"function value drifts between evaluations: {y.item():.9g} then {y2.item():.9g}"))
                    return
            with torch.no_grad():
                for k, b in enumerate(base):
                    fd = torch.zeros_like(b)
                    for j in range(b.numel()):
                        vp = [v.clone() for v in base]
                        vm = [v.clone() for v in base]
                        vp[k].view(-1)[j] += h
                        vm[k].view(-1)[j] -= h
                        with torch.enable_grad():
                            yp, _ = call(vp, False)
                            ym, _ = call(vm, False)
                        fd.view(-1)[j] = (yp.detach().double() - ym.detach().double()).item() / (2 * h)
                    g = gs[k]
                    bad = ~((g.double() - fd.double()).abs() <= atol + rtol * fd.double().abs())
                    bad |= ~torch.isfinite(g)
                    if bool(bad.any()):
                        j = int(bad.reshape(-1).nonzero()[0])
                        self.replay_failures.append(dict(index=i, what=what, kind="grad", detail=f"d/dx{k}[{j}]: autograd {g.reshape(-1)[j].item():.6g} vs central difference {fd.reshape(-1)[j].item():.6g} ({'float64' if double else 'float32'}, h={h})"))
                        return
            return
        for x in xs:
            if not x.requires_grad:
                x.requires_grad_(True)
        out = f(*xs)
        y, leaves = out if isinstance(out, tuple) else (out, list(xs))
        ty = self.terms_of(y)
        if ty.size != 1:
            self.results.append(dict(index=i, what=what, status="violated", why=f"output is not a scalar: {ty.shape}"))
            self.candidates.append(Candidate(i, what, "grad", dict(self.eng.envq), f"output is not a scalar {ty.shape}"))
            return
        ty = ty.reshape(-1)[0]
        if y.requires_grad:
            gs = torch.autograd.grad(y, leaves, allow_unused=True)
        else:
            gs = [None] * len(leaves)
        if twice:
            y2 = f(*xs)
            y2 = y2[0] if isinstance(y2, tuple) else y2
            self._eq_sym(i, what + " [same value when evaluated again]", self.terms_of(y2).reshape(-1), np.array([ty], dtype=object), kind="grad")
        lhs, rhs = [], []
        poisoned = None
        for x, g in zip(xs, gs):
            tx = self.terms_of(x).reshape(-1)
            if not all(t.op == "v" for t in tx):
                raise RuntimeError("ctx.grad: inputs must be symbolic leaves")
            tg = self.terms_of(g).reshape(-1) if g is not None else np.array([tm.ZERO] * tx.size, dtype=object)
            if tg.size != tx.size:
                self.results.append(dict(index=i, what=what, status="violated", why=f"gradient shape {tuple(g.shape)} vs input {tuple(x.shape)}"))
                self.candidates.append(Candidate(i, what, "grad", dict(self.eng.envq), "gradient shape differs from input shape"))
                return
            D = tm.diff([ty], list(tx))[0]
            for t in D:
                if poisoned is None and any(n.startswith(tm.POISON_PREFIX) for n in tm.free_vars([t])):
                    poisoned = t
            lhs += list(tg)
            rhs += list(D)
        if poisoned is not None:
            why = "a rounding / integer cast lies on the differentiable path: the derivative of the forward term is undetermined there while autograd returns a fixed value"
            self.results.append(dict(index=i, what=what, status="violated", why=why))
            self.candidates.append(Candidate(i, what, "grad", dict(self.eng.envq), why))
            return
        a = np.empty(len(lhs), dtype=object)
        b = np.empty(len(rhs), dtype=object)
        for k in range(len(lhs)):
            a[k], b[k] = lhs[k], rhs[k]
        # generic inputs (the property excludes kinks): no comparison that the forward or backward terms branch on is at equality
        generic = []
        seen = set()
        for n in tm.postorder([ty] + lhs + rhs):
            if n in seen:
                continue
            if n.op in ("<", "<="):
                seen.add(n)
                generic.append(tm.ne(n.args[0], n.args[1]))
            elif n.op == "fn" and n.args[0] == "sqrt":
                seen.add(n)
                generic.append(tm.lt(tm.ZERO, n.args[1]))
            elif n.op == "fn" and n.args[0] == "log":
                seen.add(n)
                generic.append(tm.lt(tm.ZERO, n.args[1]))
            elif n.op == "/":
                seen.add(n)
                generic.append(tm.ne(n.args[1], tm.ZERO))
        # finite gradients: can a divisor of the backward terms vanish for admissible (not necessarily generic) inputs?
        pre0 = self._full_pre()
        ok, dst, dmodel, culprit = self.solver.denominators_nonzero(pre0, [t for t in lhs if t is not None][:64]) if self.check_finite else (True, "skip", None, None)
        if not ok and dst == "sat":
            self.candidates.append(Candidate(i, what, "den", self._complete(dmodel), f"a divisor of the backward pass may vanish: {tm.show(culprit, 160)}"))
            self.notes.append(f"{what}: a divisor of the backward pass can vanish ({tm.show(culprit, 80)}); finiteness of the real gradient there is decided by replay")
        elif not ok:
            self.notes.append(f"{what}: finiteness at non-generic inputs undecided (solver {dst} on a divisor)")
        self._eq_sym(i, what, a, b, kind="grad", extra=generic, skip_den=True)

    def true(self, cond, what: str = ""):
        """Obligation: boolean tensor / term is true for all admissible values."""
        i = self._next(what)
        if self.mode == "replay":
            if not self._targeted(i, what):
                return
            ok = bool(torch.as_tensor(_nested(cond)).all())
            if not ok:
                self.replay_failures.append(dict(index=i, what=what, kind="true", detail="condition false"))
            return
        pre = self._full_pre()
        ts = list(dict.fromkeys(self._simp(pre, self.terms_of(cond)).reshape(-1)))
        res = dict(index=i, what=what, elements=len(ts), distinct=len(ts), nontrivial=0, queries=0, status="proved")
        if len(self.samples) < 3 and ts:
            self.samples.append(f"{what}: {tm.show(ts[-1], 300)}")
        for t in ts:
            t = tm.boo(t)
            if t is tm.TRUE:
                continue
            res["nontrivial"] += 1
            if t is tm.FALSE or (self._witness_ok(pre) and not self.eng.evalf(t)):
                res["status"] = "violated"
                res["why"] = f"false at the witness: {tm.show(t, 200)}"
                self.candidates.append(Candidate(i, what, "true", dict(self.eng.envq), res["why"]))
                break
            out = self.solver.prove(list(self.pre), t) if len(pre) > len(self.pre) else {"status": "skip"}
            res["queries"] += 1
            if out["status"] != "unsat":
                out = self.solver.prove(pre, t)
                res["queries"] += 1
            st = out["status"]
            if st == "unsat":
                continue
            if st in ("sat", "den-sat"):
                res["status"] = "violated" if st == "sat" else "den"
                res["why"] = out.get("why", f"sat: not {tm.show(t, 200)}")
                self.candidates.append(Candidate(i, what, "true" if st == "sat" else "den", self._complete(out.get("model")), res["why"]))
                break
            res["status"] = "inconclusive"
            res["why"] = f"solver {st} on {tm.show(t, 200)}"
            break
        self.results.append(res)

    def close(self, a, b, bound, what: str = ""):
        """Obligation: |a - b| <= bound element-wise (decided on terms; the float kernels are not asked)."""
        if self.mode == "replay":
            i = self._next(what)
            if not self._targeted(i, what):
                return
            ta = torch.as_tensor(_nested(a), dtype=torch.float64)
            tb = torch.as_tensor(_nested(b), dtype=torch.float64)
            bad = ~((ta - tb).abs() <= float(bound) + self.atol + self.rtol * tb.abs())
            if bool(bad.any()):
                k = int(bad.reshape(-1).nonzero()[0])
                self.replay_failures.append(dict(index=i, what=what, kind="close", detail=f"element {k}: got {ta.reshape(-1)[k].item():.9g} expected {tb.reshape(-1)[k].item():.9g} +- {float(bound):g}"))
            return
        ta, tb = self.terms_of(a), self.terms_of(b)
        bnd = tm.const(Fraction(bound) if not isinstance(bound, float) else tm.snap(bound))
        f = np.frompyfunc(lambda x, y: tm.le(tm.abs_(tm.sub(x, y)), bnd), 2, 1)
        self.true(f(ta, tb), what)

    def differ(self, a, b, what: str = ""):
        """Must-differ twin (vacuity / sensitivity guard): a != b must be satisfiable."""
        if self.mode == "replay":
            return
        ta, tb = self.terms_of(a), self.terms_of(b)
        pre = self._full_pre()
        found = False
        for (l, r) in list(dict.fromkeys(zip(ta.reshape(-1), tb.reshape(-1)))):
            if l is r:
                continue
            fl, fr = self.eng.evalf(l), self.eng.evalf(r)
            if abs(fl - fr) > 1e-6 * (1 + abs(fr)):
                found = True
                break
        if not found:
            goal = tm.or_(*[tm.not_(tm.eq(l, r)) for (l, r) in zip(ta.reshape(-1), tb.reshape(-1)) if l is not r])
            st, _ = self.solver.satisfiable(pre + [goal])
            found = st == "sat"
        self.results.append(dict(index=-1, what="twin:" + what, status="twin-ok" if found else "twin-failed", elements=int(ta.size)))

    def reach(self, what: str = "reach"):
        """Reachability twin: Pre & PC must be satisfiable (assert-false twin is violated)."""
        if self.mode == "replay":
            return
        pre = self._full_pre()
        ok = self._witness_ok(pre)
        if not ok:
            st, _ = self.solver.satisfiable(pre)
            ok = st == "sat"
        self.results.append(dict(index=-1, what="reach:" + what, status="twin-ok" if ok else "twin-failed", elements=len(pre)))

    # ------------------------------------------------------------------ models
    def _complete(self, model: Optional[dict]) -> dict:
        m = dict(self.eng.envq)
        for k, v in (model or {}).items():
            if v is not None:
                m[k] = v
        return m

    def _nice_model(self, pre, l, r, model, den=False):
        if den:
            return self._complete(model)
        try:
            diff = tm.ratfun_cross(l, r)
            if not tm.denominators([l, r]):
                goal = tm.or_(tm.lt(tm.const(NICE_MARGIN), diff), tm.lt(diff, tm.const(-NICE_MARGIN)))
                st, m, _ = self.solver.check(list(pre) + self.nice + [goal], timeout_ms=10000, kind="nice")
                if st == "sat":
                    return self._complete(m)
            st, m, _ = self.solver.check(list(pre) + self.nice + [tm.not_(tm.eq(diff, tm.ZERO))], timeout_ms=5000, kind="nice")
            if st == "sat":
                return self._complete(m)
        except Exception:
            pass
        return self._concrete_nice(pre, l, r, model)

    def _concrete_nice(self, pre, l, r, model):
        """The solver has already answered sat but could not be steered towards a replay-friendly model in time: look among a
        few concrete candidates (witness values, witness with scaled free variables) for one satisfying the preconditions with
        the largest deviation. Only the choice of the counterexample to replay is affected, never the verdict."""
        base = self._complete(model)
        try:
            fv = sorted(tm.free_vars([l, r]))
            wit = dict(self.eng.envq)
            cands = [wit]
            for k in (2, -1, Fraction(1, 2), 3):
                c = dict(wit)
                for n in fv:
                    if n in c and not isinstance(c[n], bool):
                        c[n] = c[n] * k
                cands.append(c)
            for n in fv[:16]:
                c = dict(wit)
                if n in c and not isinstance(c[n], bool):
                    c[n] = c[n] + Fraction(1, 16)
                    cands.append(c)
            best, bestd = None, 0.0
            for c in cands:
                env = {k: (float(v) if not isinstance(v, bool) else v) for k, v in c.items()}
                memo = {}
                try:
                    if not all(bool(tm.evalf(p, env, memo)) for p in list(pre) + self.nice):
                        continue
                    d = abs(float(tm.evalf(l, env, memo)) - float(tm.evalf(r, env, memo)))
                except Exception:
                    continue
                if d > bestd:
                    best, bestd = c, d
            if best is not None and bestd > 1e-3:
                return best
        except Exception:
            pass
        return base


class AssumptionViolated(Exception):
    pass


# ---------------------------------------------------------------------- running one obligation
ALLOWED_REJECTIONS = (ValueError, NotImplementedError, TypeError, IndexError)


def _run_path(fn, params, tier, seed, name, override, path_no, extra_pre=()):
    """One concolic execution (one path). Returns (out dict, ctx, eng)."""
    if path_no == 0:
        tm.reset_terms()
    torch.manual_seed(seed)
    eng = Engine()
    ctx = Ctx("sym", tier, seed, engine=eng)
    ctx.override = override or {}
    ctx.extra_pre = list(extra_pre)  # sub-path assumption of the flipped branch (exact equality for allclose)
    out = dict(status="proved", violations=[], inconclusive=[])
    crash = None
    import deepali.core.grid as _dg

    _orig_round = _dg.round_decimals

    def _round_stub(tensor, decimals=0, out=None):
        # environment stub (symbolic runs only): rounding of mapped coordinates to >= 6 decimals is modelled as the
        # identity unless the obligation asks for the exact model (C01 bounds the perturbation by 0.5e-k separately)
        if ctx.exact_rounding or not decimals or decimals < 6 or out is not None:
            return _orig_round(tensor, decimals=decimals, out=out)
        ctx.rounding_stubbed += 1
        if getattr(ctx, "round_detach", False):
            # gradient obligations (C20): value identity, zero gradient - what rounding does to autograd
            return tensor.detach()
        return tensor

    _dg.round_decimals = _round_stub
    try:
        with eng:
            fn(ctx, **params)
    except UnsupportedOp as e:
        out["status"] = "inconclusive"
        out["inconclusive"].append(f"unsupported: {e}")
    except ConsistencyError as e:
        out["status"] = "harness-error"
        out["inconclusive"].append(f"consistency: {e}")
    except TimeoutError:
        raise
    except AssumptionViolated:
        if path_no == 0:
            out["status"] = "harness-error"
            out["inconclusive"].append("witness violates harness assumption")
        else:
            out["status"] = "path-rejected"
    except Exception as e:  # an exception raised by the code under test at the witness
        tb = traceback.extract_tb(e.__traceback__)
        site = next((f"{fr.filename.split('/deepali/')[-1]}:{fr.name}:{fr.lineno}" for fr in reversed(tb) if "/deepali/" in fr.filename), None)
        if site is None:
            out["status"] = "harness-error"
            out["inconclusive"].append("harness exception: " + "".join(traceback.format_exception_only(type(e), e)).strip()[:400] + " @ " + (f"{tb[-1].filename}:{tb[-1].lineno}" if tb else "?"))
        elif path_no > 0 and isinstance(e, ALLOWED_REJECTIONS) and not isinstance(e, AssertionError):
            # on solver-generated paths an explicit argument rejection ends the path
            out["status"] = "path-rejected"
            out["rejected"] = f"{type(e).__name__} at {site}"
        else:
            crash = dict(exc=type(e).__name__, msg=str(e)[:300], site=site)
            ctx.candidates.append(Candidate(ctx.n_assert, "no exception", "crash", dict(eng.envq), f"{type(e).__name__}: {str(e)[:200]} at {site}"))
    finally_restore = True
    _dg.round_decimals = _orig_round
    # ---------------- replay candidates against the real code without the engine
    for c in ctx.candidates:
        rep = replay(fn, params, tier, seed, c.model, (c.index, c.what) if c.kind != "crash" else None, kind=c.kind)
        sig = f"{name}|{c.what}|{c.kind}|{c.detail}"
        if c.kind == "crash":
            expect = getattr(c, "expect_exc", None) or (crash or {}).get("exc")
            reproduced = rep.get("crash") is not None and rep["crash"]["exc"] == expect
            observed = rep.get("crash")
        else:
            same = [f for f in rep["failures"] if f["index"] == c.index or f["what"] == c.what]
            # an exception of the code under test during replay confirms a violation; an exception raised by the harness
            # itself (no deepali frame) does not
            rcrash = rep.get("crash")
            reproduced = bool(same) or (rcrash is not None and rcrash.get("site") is not None)
            observed = same or rcrash
            if not reproduced and rcrash is not None:
                c.detail += f" [replay raised a harness exception: {rcrash.get('exc')}: {str(rcrash.get('msg'))[:120]}]"
        v = dict(name=name, params=params, what=c.what, kind=c.kind, detail=c.detail, reproduced=bool(reproduced), observed=observed, path=path_no,
                 model={k: (float(v_) if not isinstance(v_, bool) else v_) for k, v_ in c.model.items() if v_ is not None}, signature=sig)
        if reproduced:
            out["violations"].append(v)
        elif c.kind == "den" and "backward pass" in c.detail:
            ctx.notes.append(f"{c.what}: {c.detail} - the real gradient there is finite (guarded in the real code)")
        elif c.kind == "den":
            out["inconclusive"].append(f"{c.what}: {c.detail} (not reproduced as a violation)")
        else:
            out["inconclusive"].append(f"NOT-REPRODUCED {c.what}: {c.detail}")
            out["status"] = "harness-error"
    for r in ctx.results:
        r["path"] = path_no
        if r["status"] == "inconclusive":
            out["inconclusive"].append(f"{r['what']}: {r.get('why')}")
        if r["status"] == "twin-failed":
            out["inconclusive"].append(f"vacuity guard failed: {r['what']}")
    if out["violations"]:
        out["status"] = "violated"
    elif out["status"] == "proved" and out["inconclusive"]:
        out["status"] = "inconclusive"
    return out, ctx, eng


def run_obligation(fn: Callable, params: dict, tier: str, seed: int, name: str, prop: str) -> dict:
    """Concolic exploration of one obligation: first path at the harness witness, then DART-style
    exploration of the other sides of data-dependent branches (up to the tier's path bound)."""
    t0 = time.time()
    bound = TIERS[tier]["path_bound"]
    out = dict(name=name, params=params, status="proved", asserts=[], violations=[], inconclusive=[], notes=[])
    agg = Stats().as_dict()
    paths = dict(explored=0, infeasible=0, rejected=0, unexplored=0, flips_unknown=0)
    queue = [(None, ())]
    tried = set()
    first = True
    sym_ops, functions, pcs = {}, {}, []
    n_pc = n_conc = checked = 0
    gs = {"collapsed": 0, "witness_cell": 0}
    samples, vars_, notes = [], {}, []
    counters = {}
    worst = "proved"
    order = {"proved": 0, "path-rejected": 0, "inconclusive": 1, "harness-error": 2, "violated": 3}
    while queue and paths["explored"] < bound:
        override, extra = queue.pop()  # deepest flip first (depth-first exploration of newly discovered branches)
        r, ctx, eng = _run_path(fn, params, tier, seed, name, override, paths["explored"], extra)
        paths["explored"] += 1
        if r["status"] == "path-rejected":
            paths["rejected"] += 1
        out["asserts"] += ctx.results
        out["violations"] += r["violations"]
        out["inconclusive"] += r["inconclusive"]
        if order[r["status"]] > order[worst]:
            worst = r["status"]
        st = ctx.stats.as_dict()
        for k, v in st.items():
            if isinstance(v, (int, float)):
                agg[k] = max(agg[k], v) if k == "max_time" else agg[k] + v
            elif isinstance(v, dict):
                for kk, vv in v.items():
                    agg[k][kk] = agg[k].get(kk, 0) + vv
        for k, v in eng.sym_ops.items():
            sym_ops[k] = sym_ops.get(k, 0) + v
        for k, v in eng.functions.items():
            functions[k] = functions.get(k, 0) + v
        n_pc += len(eng.pc)
        n_conc += sum(1 for e in eng.pc if e.kind == "concretize")
        checked += eng.checked
        for k in gs:
            gs[k] += eng.gs_lemmas.get(k, 0)
        if first:
            pcs = [dict(kind=e.kind, where=e.where, term=tm.show(e.term, 120), outcome=str(e.outcome)) for e in eng.pc[:40]]
            samples, vars_ = ctx.samples, {k: v["shape"] for k, v in ctx.vars.items()}
            first = False
        notes += ctx.notes + eng.notes
        for k_, v_ in getattr(ctx, "counters", {}).items():
            counters[k_] = counters.get(k_, 0) + v_
        if r["status"] in ("harness-error",) or r["violations"]:
            break
        # ---------------- other sides of the branches on this path
        if paths["explored"] + len(queue) >= bound:
            paths["unexplored"] += sum(1 for e in eng.pc if e.kind == "branch" and (e.where, tm.show(e.term, 80), not e.outcome) not in tried)
            continue
        prefix: List[T] = list(ctx.pre) + list(ctx.extra_pre)
        for e in eng.pc:
            if e.kind == "branch" and e.where != "harness":
                key = (e.where, tm.show(e.term, 80), not e.outcome)
                if key not in tried:
                    tried.add(key)
                    if paths["explored"] + len(queue) >= bound:
                        paths["unexplored"] += 1
                    else:
                        stt, model, _ = ctx.solver.check(prefix + ctx.nice + [e.flipped()], timeout_ms=5000, kind="flip")
                        if stt != "sat":
                            stt2, model2, _ = ctx.solver.check(prefix + [e.flipped()], timeout_ms=5000, kind="flip")
                            if stt2 == "unsat":
                                paths["infeasible"] += 1
                            elif stt2 == "sat":
                                stt, model = stt2, model2
                            else:
                                paths["flips_unknown"] += 1
                        if stt == "sat":
                            w = dict(eng.envq)
                            w.update({k: v for k, v in model.items() if v is not None})
                            queue.append((w, tuple(extra) + (e.flipped(),)))
            prefix.append(e.as_term())
    paths["unexplored"] += len(queue)
    out["status"] = worst if worst != "path-rejected" else "proved"
    if out["violations"]:
        out["status"] = "violated"
    out["stats"] = agg
    out["paths"] = paths
    out["pc"] = pcs
    out["n_pc"] = n_pc
    out["n_concretize"] = n_conc
    out["sym_ops"] = sym_ops
    out["functions"] = functions
    out["checked_elements"] = checked
    out["gs"] = gs
    out["samples"] = samples
    out["vars"] = vars_
    out["notes"] = notes
    out["counters"] = counters
    out["wall"] = time.time() - t0
    return out


def replay(fn, params, tier, seed, model, target_index=None, kind=None) -> dict:
    """Run the harness function on concrete tensors built from `model`, without the engine: first in the
    precision users run (float32, loose tolerance), then in double precision (tight tolerance)."""
    r32 = _replay_once(fn, params, tier, seed, model, target_index, double=False, kind=kind)
    if r32["failures"] or r32["crash"] is not None:
        r32["precision"] = "float32"
        return r32
    r64 = _replay_once(fn, params, tier, seed, model, target_index, double=True, kind=kind)
    r64["precision"] = "float64"
    return r64


def _replay_once(fn, params, tier, seed, model, target_index, double, kind=None) -> dict:
    ctx = Ctx("replay", tier, seed, model=model)
    ctx.replay_kind = kind
    ctx.replay_double = double
    if not double:
        ctx.rtol, ctx.atol = 2e-3, 2e-3
    ctx.replay_target = target_index
    res = dict(failures=[], crash=None)
    try:
        with torch.no_grad() if False else _null():
            fn(ctx, **params)
    except AssumptionViolated:
        res["assumption_violated"] = True
    except Exception as e:
        tb = traceback.extract_tb(e.__traceback__)
        site = next((f"{fr.filename.split('/deepali/')[-1]}:{fr.name}:{fr.lineno}" for fr in reversed(tb) if "/deepali/" in fr.filename), None)
        res["crash"] = dict(exc=type(e).__name__, msg=str(e)[:300], site=site)
    res["failures"] = ctx.replay_failures
    return res


class _null:
    def __enter__(self):
        return self

    def __exit__(self, *a):
        return False
