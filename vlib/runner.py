"""Runs the obligations of one property in parallel, triages results, writes evidence."""
from __future__ import annotations

import argparse
import hashlib
import importlib
import json
import multiprocessing as mp
import os
import re
import signal
import sys
import time
from typing import Any, Dict, List

ROOT = os.path.dirname(os.path.dirname(os.path.abspath(__file__)))
EXIT_OK, EXIT_VIOLATION, EXIT_HARNESS = 0, 1, 3


def _load(prop: str):
    sys.path.insert(0, ROOT) if ROOT not in sys.path else None
    return importlib.import_module(f"checks.{prop.lower()}")


def _alarm(signum, frame):
    raise TimeoutError("obligation wall-clock limit")


def _worker(task):
    prop, idx, tier, seed = task
    import warnings

    warnings.filterwarnings("ignore")
    import torch

    torch.set_num_threads(1)
    from vlib.harness import run_obligation, TIERS

    mod = _load(prop)
    name, fn, params = mod.obligations(tier, seed)[idx]
    signal.signal(signal.SIGALRM, _alarm)
    signal.alarm(int(TIERS[tier]["ob_wall"]))
    try:
        return run_obligation(fn, params, tier, seed, name, prop)
    except TimeoutError:
        return dict(name=name, params=params, status="inconclusive", asserts=[], violations=[], inconclusive=["wall-clock limit"], stats={}, wall=TIERS[tier]["ob_wall"])
    except BaseException as e:  # noqa
        import traceback

        return dict(name=name, params=params, status="harness-error", asserts=[], violations=[], inconclusive=["runner: " + traceback.format_exc()[-1500:]], stats={}, wall=0)
    finally:
        signal.alarm(0)


def _child(task, conn):
    try:
        conn.send(_worker(task))
    except BaseException as e:  # noqa
        try:
            conn.send(dict(name="?", params={}, status="harness-error", asserts=[], violations=[], inconclusive=[f"runner: result not transferable: {e!r}"], stats={}, wall=0))
        except BaseException:  # noqa
            pass
    finally:
        conn.close()


def _run_parallel(tasks, jobs, tier, obs):
    """One forked process per obligation, at most `jobs` at a time; a process that does not deliver within the obligation's
    wall-clock budget (+45 s grace: a solver call that ignores its timeout cannot be interrupted from Python) is killed and
    the obligation reported inconclusive."""
    from multiprocessing.connection import wait
    from vlib.harness import TIERS

    ctx = mp.get_context("fork")
    limit = TIERS[tier]["ob_wall"] + 45
    pending = list(tasks)[::-1]
    running = {}  # conn -> (proc, task, t0)
    results = []
    t_start = time.time()
    budget = TIERS[tier].get("check_wall")
    done = 0
    while pending or running:
        if budget and pending and time.time() - t_start > budget:
            # the check's overall wall budget is used up: what has not started is reported, never silently dropped
            for task in pending:
                name = obs[task[1]][0]
                results.append(dict(name=name, params=obs[task[1]][2], status="inconclusive", asserts=[], violations=[], inconclusive=[f"not started: overall wall budget of the {tier} tier ({budget} s) exhausted"], stats={}, wall=0))
            pending = []
            continue
        while pending and len(running) < jobs:
            task = pending.pop()
            rd, wr = ctx.Pipe(duplex=False)
            p = ctx.Process(target=_child, args=(task, wr), daemon=True)
            p.start()
            wr.close()
            running[rd] = (p, task, time.time())
        ready = wait(list(running), timeout=1.0)
        for rd in ready:
            p, task, t0 = running.pop(rd)
            try:
                r = rd.recv()
            except (EOFError, OSError):
                name = obs[task[1]][0]
                r = dict(name=name, params=obs[task[1]][2], status="harness-error", asserts=[], violations=[], inconclusive=[f"runner: worker died (exit code {p.exitcode})"], stats={}, wall=time.time() - t0)
            rd.close()
            p.join(5)
            if p.is_alive():
                p.kill()
            results.append(r)
            done += 1
            if done % 50 == 0:
                print(f"  .. {done}/{len(tasks)} obligations done, {time.time() - t_start:.0f} s", file=sys.stderr, flush=True)
        now = time.time()
        for rd in list(running):
            p, task, t0 = running[rd]
            if now - t0 > limit:
                p.kill()
                p.join(5)
                rd.close()
                del running[rd]
                name = obs[task[1]][0]
                results.append(dict(name=name, params=obs[task[1]][2], status="inconclusive", asserts=[], violations=[], inconclusive=["hard wall-clock limit (a solver call did not return within its timeout)"], stats={}, wall=now - t0))
    return results


def load_known():
    p = os.path.join(ROOT, "known_findings.json")
    if not os.path.exists(p):
        return {"findings": [], "fixed": []}
    return json.load(open(p))


def run_property(prop: str, tier: str, seed: int, jobs: int = 16, only: str = None) -> int:
    t0 = time.time()
    mod = _load(prop)
    obs = mod.obligations(tier, seed)
    tasks = [(prop, i, tier, seed) for i, (n, _, _) in enumerate(obs) if only is None or re.search(only, n)]
    results: List[dict] = []
    if jobs <= 1 or len(tasks) <= 1:
        for t in tasks:
            results.append(_worker(t))
    else:
        results = _run_parallel(tasks, jobs, tier, obs)
    results.sort(key=lambda r: r["name"])
    known = load_known()
    kf = [k for k in known.get("findings", []) if k["property"] == prop]
    lines = []
    new_viol = 0
    known_hits = []
    harness_err = []
    os.makedirs(os.path.join(ROOT, "replays", prop), exist_ok=True)
    for r in results:
        for v in r.get("violations", []):
            hit = next((k for k in kf if re.search(k["match"], v["signature"])), None)
            if hit:
                known_hits.append((hit, v))
                continue
            new_viol += 1
            h = hashlib.sha1(json.dumps([v["name"], v["what"], v["kind"]], sort_keys=True).encode()).hexdigest()[:12]
            path = os.path.join(ROOT, "replays", prop, f"{h}.json")
            json.dump(dict(property=prop, tier=tier, seed=seed, obligation=v["name"], params=v["params"], what=v["what"], kind=v["kind"], detail=v["detail"], observed=v["observed"], model=v["model"]), open(path, "w"), indent=1, default=str)
            lines.append(f"VIOLATION property={prop} replay={path}")
            print(f"  [{v['name']}] {v['what']}: {v['detail']}\n    observed on the real code: {v['observed']}")
        if r["status"] == "harness-error":
            harness_err.append(r)
    seen = set()
    for hit, v in known_hits:
        if hit["match"] in seen:
            continue
        seen.add(hit["match"])
        print(f"KNOWN-FINDING: property={prop} {hit['what']}")
    for l in dict.fromkeys(lines):
        print(l)
    wall = time.time() - t0
    write_evidence(prop, tier, seed, mod, obs, results, new_viol, known_hits, wall, partial=only is not None)
    n_proved = sum(1 for r in results if r["status"] == "proved")
    n_inc = sum(1 for r in results if r["status"] == "inconclusive")
    print(f"{prop} [{tier}] obligations={len(results)} proved={n_proved} inconclusive={n_inc} violated={sum(1 for r in results if r['status']=='violated')} harness-errors={len(harness_err)} known-findings={len(seen)} wall={wall:.1f}s")
    for r in results:
        if r["status"] in ("inconclusive", "harness-error"):
            for m in r["inconclusive"][:3]:
                print(f"  {r['status'].upper()} [{r['name']}] {m[:600]}")
    if new_viol:
        return EXIT_VIOLATION
    if harness_err:
        return EXIT_HARNESS
    return EXIT_OK


def write_evidence(prop, tier, seed, mod, obs, results, new_viol, known_hits, wall, partial=False):
    asserts = [a for r in results for a in r.get("asserts", []) if a.get("index", -1) >= 0]
    twins = [a for r in results for a in r.get("asserts", []) if a.get("index", -1) < 0]
    stats_keys = ("queries", "unsat", "sat", "unknown", "time", "lemma_queries", "lemma_time", "den_queries", "cvc5_queries", "cvc5_disagree", "normalised")
    agg = {k: 0 for k in stats_keys}
    axioms: Dict[str, int] = {}
    max_q = 0.0
    for r in results:
        st = r.get("stats") or {}
        for k in stats_keys:
            agg[k] += st.get(k, 0) or 0
        max_q = max(max_q, st.get("max_time", 0) or 0)
        for k, v in (st.get("axioms") or {}).items():
            axioms[k] = axioms.get(k, 0) + v
    funcs: Dict[str, int] = {}
    ops: Dict[str, int] = {}
    for r in results:
        for k, v in (r.get("functions") or {}).items():
            funcs[k] = funcs.get(k, 0) + v
        for k, v in (r.get("sym_ops") or {}).items():
            ops[k] = ops.get(k, 0) + v
    n_assert = len(asserts)
    n_proved_assert = sum(1 for a in asserts if a["status"] == "proved")
    distinct_nontrivial = sum(a.get("nontrivial", 0) for a in asserts)
    counters: Dict[str, int] = {}
    for r in results:
        for k, v in (r.get("counters") or {}).items():
            counters[k] = counters.get(k, 0) + v
    extra_rule = ""
    src = getattr(mod, "NONTRIVIAL_FROM", None)
    if src:
        distinct_nontrivial += counters.get(src, 0)
        extra_rule = " " + getattr(mod, "NONTRIVIAL_RULE", f"plus the measured counter '{src}'")
    samples = []
    for r in results:
        for s in r.get("samples", [])[:1]:
            samples.append({"obligation": r["name"], "params": r.get("params"), "assertion": s[:500], "status": r["status"]})
        if len(samples) >= 6:
            break
    if not samples:
        samples = [{"obligation": r["name"], "status": r["status"]} for r in results[:3]] or [{"note": "no obligations ran"}]
    for hit, v in known_hits[:3]:
        samples.append({"known_finding": hit["what"], "obligation": v["name"], "model": v["model"], "observed": v["observed"]})
    cov = dict(
        explanation=getattr(mod, "EXPLANATION", "") + " Deciding step: z3 verdict (unsat) on the negated property over the terms produced by concolic execution of the real deepali code under a TorchDispatchMode; sat models are replayed on the real code without the engine before being reported. Before a query is sent, the division-free difference of the two sides is expanded into a canonical polynomial over its atoms under a time budget; when that is the zero polynomial the negated goal is `0 != 0` and is counted under solver.normalised instead of solver.unsat.",
        obligations=len(results),
        discharged=sum(1 for r in results if r["status"] == "proved"),
        assertions=n_assert,
        assertions_discharged=n_proved_assert,
        evaluations=int(agg["queries"]),
        distinct_nontrivial=int(distinct_nontrivial),
        rule="one obligation = one harness function instance (configuration of D, axes, shapes, flags); one assertion = one tensor identity/inequality; element queries are de-duplicated by term identity, trivial = syntactically identical terms (not sent to the solver); distinct_nontrivial counts de-duplicated non-identical element pairs" + extra_rule,
        counters=counters,
        samples=samples,
        solver=dict(engine="z3 " + _z3_version(), **{k: (round(v, 3) if isinstance(v, float) else v) for k, v in agg.items()}, max_query_s=round(max_q, 3)),
        vacuity_guards=dict(total=len(twins), ok=sum(1 for t in twins if t["status"] == "twin-ok")),
        functions_encoded=sorted(funcs, key=lambda k: -funcs[k])[:80],
        aten_ops_encoded=sorted(ops),
        path_conditions=dict(total=sum(r.get("n_pc", 0) for r in results), concretisations=sum(r.get("n_concretize", 0) for r in results), sample=[p for r in results for p in r.get("pc", [])[:2]][:10]),
        paths={k: sum((r.get("paths") or {}).get(k, 0) for r in results) for k in ("explored", "infeasible", "rejected", "unexplored", "flips_unknown")},
        grid_sampler=dict(collapsed=sum((r.get("gs") or {}).get("collapsed", 0) for r in results), witness_cell=sum((r.get("gs") or {}).get("witness_cell", 0) for r in results)),
        consistency_checked_elements=sum(r.get("checked_elements", 0) for r in results),
        axioms_used=axioms,
        bounds=getattr(mod, "BOUNDS", {}).get(tier, getattr(mod, "BOUNDS", {})),
        inconclusive=[{"obligation": r["name"], "why": r["inconclusive"][:3]} for r in results if r["status"] in ("inconclusive", "harness-error")][:40],
        known_findings=[{"what": h["what"], "obligation": v["name"]} for h, v in known_hits][:20],
        per_obligation=[{"name": r["name"], "status": r["status"], "asserts": len(r.get("asserts", [])), "queries": (r.get("stats") or {}).get("queries", 0), "wall_s": round(r.get("wall", 0), 2)} for r in results],
        exhaustive=False,
    )
    ev = dict(property_id=prop, tier=tier, seed=int(seed), level="other", coverage=cov, assumptions=list(getattr(mod, "ASSUMPTIONS", [])) + COMMON_ASSUMPTIONS, wall_s=round(wall, 2), violations=int(new_viol))
    # evidence/<id>.json describes a complete run of the registered command against /repo's tree; partial runs (--only) and
    # runs of the tools that apply a seeded change (VERIF_EVIDENCE_DIR) write elsewhere so that they never replace it
    out_dir = os.environ.get("VERIF_EVIDENCE_DIR") or (os.path.join(ROOT, "work", "evidence_partial") if partial else os.path.join(ROOT, "evidence"))
    os.makedirs(out_dir, exist_ok=True)
    with open(os.path.join(out_dir, f"{prop}.json"), "w") as f:
        json.dump(ev, f, indent=1, default=str)
    if tier == "thorough" and not partial and not os.environ.get("VERIF_EVIDENCE_DIR"):
        os.makedirs(os.path.join(ROOT, "evidence", "thorough"), exist_ok=True)
        with open(os.path.join(ROOT, "evidence", "thorough", f"{prop}.json"), "w") as f:
            json.dump(ev, f, indent=1, default=str)


COMMON_ASSUMPTIONS = [
    "real arithmetic: float32/float64 rounding of the tensor kernels is not modelled unless an obligation says 'fp'",
    "concrete float constants are identified with the simplest rational within float32 resolution (rel 2^-22)",
    "ATen kernels are trusted; every transfer function is compared with the real kernel's output at the witness (consistency check)",
    "claims are restricted to the recorded path condition (branches / concretisations listed under path_conditions)",
    "z3 (and cvc5 in thorough) are trusted; unknown/timeouts are reported as inconclusive, never as discharged",
]


def _z3_version():
    try:
        import z3

        return z3.get_version_string()
    except Exception:
        return "?"


def do_replay(prop: str, path: str) -> int:
    from vlib.harness import replay

    rec = json.load(open(path))
    mod = _load(prop)
    obs = {n: (fn, p) for n, fn, p in mod.obligations(rec.get("tier", "quick"), rec.get("seed", 0))}
    if rec["obligation"] not in obs:
        obs = {n: (fn, p) for n, fn, p in mod.obligations("thorough", rec.get("seed", 0))}
    fn, params = obs[rec["obligation"]]
    res = replay(fn, params, rec.get("tier", "quick"), rec.get("seed", 0), rec["model"])
    print(json.dumps(res, indent=1, default=str))
    bad = bool(res["failures"]) or res["crash"] is not None
    print("REPRODUCED" if bad else "not reproduced")
    return 1 if bad else 0


def main(argv=None):
    ap = argparse.ArgumentParser()
    ap.add_argument("property")
    ap.add_argument("--tier", default=os.environ.get("VERIF_TIER", "quick"))
    ap.add_argument("--replay", default=None)
    ap.add_argument("--only", default=None)
    ap.add_argument("--jobs", type=int, default=int(os.environ.get("VERIF_JOBS", "16")))
    a = ap.parse_args(argv)
    seed = int(os.environ.get("VERIF_SEED", "0") or 0)
    if a.replay:
        return do_replay(a.property, a.replay)
    return run_property(a.property, a.tier, seed, a.jobs, a.only)


if __name__ == "__main__":
    sys.exit(main())
