"""C01 - Grid coordinate systems (index, cube, cube-corners, world) map consistently."""
from __future__ import annotations

import itertools
from fractions import Fraction

import torch

from vlib import geom
from vlib.geom import AXES, sym_grid, ref_map

PROPERTY = "C01"
TECHNIQUE = 'concolic ATen-level symbolic execution of the real Grid/Cube code + z3 (QF_NRA/LIA, integer sizes symbolic) verdict per obligation; cvc5 cross-check in thorough; the torch.arange element count (a float computation) by exhaustive concrete enumeration of n in [1, 4096]'
EXPLANATION = (
    "Bounded symbolic execution + SMT. The real Grid/Cube/linalg code is executed on tensors whose spacing, center, rotation "
    "(rational parametrisation of SO(2)/SO(3) times concrete signed permutations), integer sizes and points are solver variables; "
    "round trips, path independence, vector maps, anchors, sample lattices and identity resampling become polynomial (in)equalities "
    "decided by z3 for all values."
)
ASSUMPTIONS = [
    "rotations are quantified through t=tan(angle/2) (2-D, angle pi excluded) and non-zero quaternions (3-D)",
    "decimals=None unless the obligation name says 'rounding'; rounding obligations bound the deviation by half a unit in the last kept decimal",
    "two grids are assumed not allclose in at least one attribute (Grid.__eq__ path recorded in the path condition)",
    "torch.arange element count: the float lattice count is decided by concrete execution, exhaustively for every n in [1, 4096] (lattice-count-all-n-*: enumeration of a finite domain, not a solver verdict); the coordinate values by the solver for the enumerated n",
]
BOUNDS = {
    "quick": dict(D=[2, 3], sizes="symbolic integers 2..4096 for transform/anchors; coords n in 1..6", points=2, paths=1),
    "thorough": dict(D=[2, 3], sizes="symbolic integers 2..4096; coords n in 1..17,32,33,64,4095,4096 (1-D slices)", points=2, paths=1, flips=4),
}


def _pts(ctx, D, name="x", seed=0):
    return ctx.reals(name, [p[:D] for p in geom.pick(geom.POINTS, seed)], nice=(-8, 8))


def _min_size(*axes):
    return 2  # sizes >= 2 so that cube_corners is defined


# ------------------------------------------------------------------ obligations
def ob_roundtrip(ctx, D, A, other, ac, flip=0):
    """A -> B -> A is the identity, for every B, on the same grid or through a second grid."""
    g, P = sym_grid(ctx, "g", D, ctx.seed, 0, align_corners=ac, flip=flip)
    h, Q = sym_grid(ctx, "h", D, ctx.seed, 1, align_corners=not ac) if other else (None, None)
    x = _pts(ctx, D, seed=ctx.seed)
    ctx.reach()
    for B in AXES:
        if B == A and not other:
            continue
        y = g.transform_points(x, A, B, to_grid=h, decimals=None)
        z = (h or g).transform_points(y, B, A, to_grid=g if other else None, decimals=None)
        ctx.eq(z, x, f"{A}->{B}->{A}")
    # must-differ twin: the wrong cube convention does not round-trip
    if A in ("cube", "cube_corners"):
        W = "cube" if A == "cube_corners" else "cube_corners"
        y = g.transform_points(x, A, "grid", decimals=None)
        z = g.transform_points(y, "grid", W, decimals=None)
        ctx.differ(z, x, f"{A}->grid->{W}")


def ob_triple(ctx, D, A, other, ac, flip=0):
    """A -> C equals A -> B -> C for all B, C (second leg through a second grid if other)."""
    g, P = sym_grid(ctx, "g", D, ctx.seed, 0, align_corners=ac, flip=flip)
    h, Q = sym_grid(ctx, "h", D, ctx.seed, 1, align_corners=ac) if other else (None, None)
    x = _pts(ctx, D, seed=ctx.seed)
    for B in AXES:
        for C in AXES:
            if B == A or (B == C and not other):
                continue
            direct = g.transform_points(x, A, C, to_grid=h, decimals=None)
            y = g.transform_points(x, A, B, decimals=None)
            via = g.transform_points(y, B, C, to_grid=h, decimals=None)
            ctx.eq(via, direct, f"{A}->{B}->{C}")


def ob_reference(ctx, D, A, other, ac, flip=0):
    """Every map equals the independent reference model (anchors follow from it)."""
    g, P = sym_grid(ctx, "g", D, ctx.seed, 0, align_corners=ac, flip=flip)
    if isinstance(other, str):
        h, Q = geom.related_grid(ctx, g, P, "h", D, other, align_corners=ac)
    else:
        h, Q = sym_grid(ctx, "h", D, ctx.seed, 1, align_corners=ac) if other else (None, None)
    x = _pts(ctx, D, seed=ctx.seed)
    for B in AXES:
        y = g.transform_points(x, A, B, to_grid=h, decimals=None)
        if other:
            w = ref_map(A, "world", x, P)
            ref = ref_map("world", B, w, Q)
        else:
            ref = ref_map(A, B, x, P)
        ctx.eq(y, ref, f"{A}->{B} vs reference")


def ob_vectors(ctx, D, A, other, ac, flip=0):
    """transform_vectors(v) == transform_points(p+v) - transform_points(p); transform(vectors=True) is the linear block."""
    g, P = sym_grid(ctx, "g", D, ctx.seed, 0, align_corners=ac, flip=flip)
    h, Q = sym_grid(ctx, "h", D, ctx.seed, 1, align_corners=not ac) if other else (None, None)
    p = _pts(ctx, D, "p", seed=ctx.seed)
    v = _pts(ctx, D, "v", seed=ctx.seed + 1)
    for B in AXES:
        tv = g.transform_vectors(v, A, B, to_grid=h)
        d = g.transform_points(p + v, A, B, to_grid=h, decimals=None) - g.transform_points(p, A, B, to_grid=h, decimals=None)
        ctx.eq(tv, d, f"vectors {A}->{B}")
        M = g.transform(A, B, to_grid=h, vectors=True)
        H = g.transform(A, B, to_grid=h, vectors=False)
        ctx.eq(M, H[:, :D], f"linear block {A}->{B}")
        tv2 = g.apply_transform(v, A, B, to_grid=h, vectors=True, decimals=None)
        ctx.eq(tv2, d, f"apply_transform(vectors) {A}->{B}")


def ob_anchors(ctx, D, ac, flip=0, use_origin=False):
    """Documented anchors, against constants written in the harness."""
    g, P = sym_grid(ctx, "g", D, ctx.seed, 0, align_corners=ac, flip=flip, origin=use_origin)
    n, s, c, R = P["n"], P["s"], P["c"], P["R"]
    n_t = torch.as_tensor(n, dtype=s.dtype) if not isinstance(n, torch.Tensor) else n
    zero = torch.zeros(1, D)
    first = g.index_to_world(zero, decimals=None)
    ctx.eq(first[0], g.origin(), "index 0 -> origin()")
    mid = ((n_t - 1) / 2).reshape(1, D)
    ctx.eq(g.index_to_world(mid, decimals=None)[0], g.center(), "index (n-1)/2 -> center")
    if use_origin:
        ctx.eq(g.origin(), c, "origin() returns the origin passed to the constructor")
    else:
        ctx.eq(g.origin(), c - ((n_t - 1) / 2 * s) @ R.t(), "origin = c - R diag(s) (n-1)/2")
    last = (n_t - 1).reshape(1, D)
    ctx.eq(g.transform_points(-torch.ones(1, D), "cube_corners", "grid", decimals=None), zero, "corners -1 -> index 0")
    ctx.eq(g.transform_points(torch.ones(1, D), "cube_corners", "grid", decimals=None), last, "corners +1 -> index n-1")
    ctx.eq(g.transform_points(-torch.ones(1, D), "cube", "grid", decimals=None), zero - 0.5, "cube -1 -> index -1/2")
    ctx.eq(g.transform_points(torch.ones(1, D), "cube", "grid", decimals=None), last + 0.5, "cube +1 -> index n-1/2")
    # helper methods agree with transform_points
    x = _pts(ctx, D, seed=ctx.seed)
    for acf in (True, False):
        ax = "cube_corners" if acf else "cube"
        ctx.eq(g.index_to_cube(x, decimals=None, align_corners=acf), g.transform_points(x, "grid", ax, decimals=None), f"index_to_cube({acf})")
        ctx.eq(g.cube_to_index(x, decimals=None, align_corners=acf), g.transform_points(x, ax, "grid", decimals=None), f"cube_to_index({acf})")
        ctx.eq(g.cube_to_world(x, decimals=None, align_corners=acf), g.transform_points(x, ax, "world", decimals=None), f"cube_to_world({acf})")
        ctx.eq(g.world_to_cube(x, decimals=None, align_corners=acf), g.transform_points(x, "world", ax, decimals=None), f"world_to_cube({acf})")
    ax = "cube_corners" if ac else "cube"
    ctx.eq(g.index_to_cube(x, decimals=None), g.transform_points(x, "grid", ax, decimals=None), "index_to_cube(default) uses grid.align_corners")
    ctx.eq(g.world_to_cube(x, decimals=None), g.transform_points(x, "world", ax, decimals=None), "world_to_cube(default) uses grid.align_corners")
    ctx.eq(g.world_to_index(x, decimals=None), g.transform_points(x, "world", "grid", decimals=None), "world_to_index")
    # default transform() is cube(default convention) -> world, inverse_transform the opposite
    ctx.eq(g.transform(), g.transform(ax, "world"), "transform() default")
    ctx.eq(g.inverse_transform(), g.transform("world", ax), "inverse_transform() default")


def ob_functional(ctx, D, ac):
    """Module-level wrappers grid_transform_points / grid_transform_vectors equal the methods."""
    from deepali.core.grid import grid_transform_points, grid_transform_vectors, grid_points_transform, grid_vectors_transform

    g, P = sym_grid(ctx, "g", D, ctx.seed, 0, align_corners=ac)
    h, Q = sym_grid(ctx, "h", D, ctx.seed, 1, align_corners=not ac)
    x = _pts(ctx, D, seed=ctx.seed)
    for A, B in (("cube", "world"), ("grid", "cube_corners"), ("world", "grid"), ("cube_corners", "cube")):
        ref = ref_map("world", B, ref_map(A, "world", x, P), Q)
        ctx.eq(grid_transform_points(x, g, A, h, B, decimals=None), ref, f"grid_transform_points {A}->{B}")
        lin = ref - ref_map("world", B, ref_map(A, "world", torch.zeros_like(x), P), Q)
        ctx.eq(grid_transform_vectors(x, g, A, h, B), lin, f"grid_transform_vectors {A}->{B}")
        ctx.eq(grid_points_transform(g, A, h, B), g.transform(A, B, to_grid=h), f"grid_points_transform {A}->{B}")
        ctx.eq(grid_vectors_transform(g, A, h, B), g.transform(A, B, to_grid=h, vectors=True), f"grid_vectors_transform {A}->{B}")


def ob_coords(ctx, D, sizes, ac_grid):
    """coords()/points() are the maps applied to the integer indices; n per axis; inside [-1, 1]."""
    g, P = sym_grid(ctx, "g", D, ctx.seed, 0, sizes=sizes, align_corners=ac_grid, min_size=1)
    n = list(sizes)
    idx = torch.stack(torch.meshgrid(*[torch.arange(m, dtype=torch.float32) for m in reversed(n)], indexing="ij"), dim=-1).flip(-1)
    for a in (True, False):
        if a and any(m == 1 for m in n):
            continue
        c = g.coords(align_corners=a)
        ctx.eq(torch.tensor(list(c.shape)), torch.tensor(list(reversed(n)) + [D]), f"coords({a}) shape: n samples per axis")
        ref = ref_map("grid", "cube_corners" if a else "cube", idx, dict(P, n=n))
        ctx.eq(c, ref, f"coords(align_corners={a}) == map(indices)")
        ctx.true((c >= -1) & (c <= 1), f"coords({a}) within [-1, 1]")
    ctx.eq(g.coords(normalize=False).to(torch.float32), idx, "coords(normalize=False) are the integer indices")
    ctx.eq(g.coords(normalize=False, center=True), idx - (torch.tensor(n, dtype=torch.float32) - 1) / 2, "coords(center=True)")
    ctx.eq(g.coords(flip=True), g.coords().flip(-1), "coords(flip=True)")
    ctx.eq(g.coords(channels_last=False), g.coords().movedim(-1, 0), "coords(channels_last=False)")
    for d in range(D):
        ctx.eq(g.coords(dim=d)[:, 0], g.coords()[(0,) * (D - 1 - d) + (slice(None),) + (0,) * d + (d,)], f"coords(dim={d})")
    for B in AXES:
        if B == "cube_corners" and any(m == 1 for m in n):
            continue
        p = g.points(B)
        ref = ref_map("grid", B, idx, dict(P, n=n))
        if B in ("world", "cube_corners", "grid"):
            # points() applies the default rounding for cube/grid axes; world is not rounded
            pass
        if B in ("world", "cube", "grid"):
            ctx.eq(p, ref, f"points({B}) == map(indices)")


def ob_lattice(ctx, n, a):
    """1-D lattice for large n: count n, first/last anchors, monotone, inside [-1, 1] (concrete sizes)."""
    from deepali.core.grid import Grid

    s = ctx.reals("s", [1.5], gt=0)
    g = Grid(size=(n,), spacing=s, align_corners=a)
    c = g.coords(align_corners=a)
    ctx.eq(torch.tensor([c.shape[0]]), torch.tensor([n]), f"n={n}: exactly n samples")
    if n > 1:
        first = -1.0 if a else -1.0 + 1.0 / n
        ks = sorted({0, 1, n // 2, n - 2, n - 1})
        for k in ks:
            ref = Fraction(2 * k, n - 1) - 1 if a else Fraction(2 * k + 1, n) - 1
            # concrete float coordinates: exact for small n; for large n a float32 value and its exact rational are
            # identified only up to float32 resolution, so the claim is stated with that tolerance
            if n <= 64:
                ctx.eq(c[k, 0], float(ref), f"n={n} sample {k}")
            else:
                ctx.close(c[k, 0], float(ref), 1e-6, f"n={n} sample {k} (within 1e-6)")
        ctx.true((c >= -1) & (c <= 1), f"n={n}: all inside [-1, 1]")


def ob_lattice_count(ctx, a):
    """Number of normalised coordinates per axis for EVERY n in [1, 4096] (the property's stated bound). torch.arange
    computes its element count in floating point, outside the real-arithmetic encoding, so this sub-claim is decided by
    exhaustive concrete enumeration of the finite domain; the values of the coordinates are decided by the solver in the
    lattice-n* obligations."""
    from deepali.core.grid import Grid

    bad = []
    for n in range(1, 4097):
        c = Grid(size=(n,), align_corners=a).coords(align_corners=a)
        ok = c.shape[0] == n and bool((c >= -1).all()) and bool((c <= 1).all())
        if not ok:
            bad.append(n)
    ctx.eq(torch.tensor([float(len(bad))]), torch.zeros(1), f"exactly n coordinates inside [-1, 1] for every n in [1, 4096] (align_corners={a}); failing n: {bad[:8]}")


def ob_identity_resample(ctx, D, sizes, a):
    """grid_sample(img, coords(a), align_corners=a) returns the image; the other flag does not."""
    import torch.nn.functional as F

    g, P = sym_grid(ctx, "g", D, ctx.seed, 0, sizes=sizes, align_corners=a, rotation=False)
    shape = tuple(reversed(sizes))
    numel = 1
    for m in shape:
        numel *= m
    img = ctx.reals("I", [((7 * i) % 11) / 4 for i in range(2 * numel)], nice=(-8, 8)).reshape((1, 2) + shape)
    c = g.coords(align_corners=a).unsqueeze(0)
    out = F.grid_sample(img, c, mode="bilinear", padding_mode="zeros", align_corners=a)
    ctx.eq(out, img, f"identity resampling align_corners={a}")
    out_b = F.grid_sample(img, c, mode="bilinear", padding_mode="border", align_corners=a)
    ctx.eq(out_b, img, f"identity resampling (border) align_corners={a}")
    out_n = F.grid_sample(img, c, mode="nearest", padding_mode="zeros", align_corners=a)
    ctx.eq(out_n, img, f"identity resampling (nearest) align_corners={a}")
    if any(m > 2 for m in sizes):  # (with two samples per axis and border padding both conventions clamp to the same voxels)
        wrong = F.grid_sample(img, c, mode="bilinear", padding_mode="border", align_corners=not a)
        ctx.differ(wrong, img, "other align_corners flag must differ")


def ob_cube(ctx, D, a):
    """Cube.cube_to_world / world_to_cube are inverse and equal the CUBE maps of cube.grid()."""
    from deepali.core.cube import Cube

    e = ctx.reals("e", geom.pick(geom.SPACINGS, ctx.seed, 2)[:D], gt=0, nice=(0.25, 16))
    c = ctx.reals("c", geom.pick(geom.CENTERS, ctx.seed)[:D], nice=(-16, 16))
    R = geom.sym_rotation(ctx, "r", D, ctx.seed)
    cube = Cube(extent=e, center=c, direction=R)
    x = _pts(ctx, D, seed=ctx.seed)
    w = cube.cube_to_world(x)
    ctx.eq(cube.world_to_cube(w), x, "Cube world_to_cube(cube_to_world(x))")
    ctx.eq(cube.cube_to_world(cube.world_to_cube(x)), x, "Cube cube_to_world(world_to_cube(x))")
    ctx.eq(w, c + (x * e / 2) @ R.t(), "Cube.cube_to_world == c + R diag(e/2) x")
    sizes = geom.pick(geom.SIZES, ctx.seed)[:D]
    g = cube.grid(size=tuple(sizes), align_corners=a)
    ax = "cube_corners" if a else "cube"
    ctx.eq(g.transform_points(x, ax, "world", decimals=None), w, f"cube.grid({a}) {ax}->world == Cube.cube_to_world")
    ctx.eq(g.cube().cube_to_world(x), w, "grid.cube() is the same cube")
    v = _pts(ctx, D, "v", seed=ctx.seed + 1)
    ctx.eq(cube.transform_vectors(v, "cube", "world"), cube.cube_to_world(x + v) - w, "Cube vectors == linear part")
    # two cubes
    e2 = ctx.reals("f", geom.pick(geom.SPACINGS, ctx.seed, 3)[:D], gt=0, nice=(0.25, 16))
    c2 = ctx.reals("d", geom.pick(geom.CENTERS, ctx.seed, 1)[:D], nice=(-16, 16))
    R2 = geom.sym_rotation(ctx, "q", D, ctx.seed, 1)
    cube2 = Cube(extent=e2, center=c2, direction=R2)
    y = cube.transform_points(x, "cube", "cube", to_cube=cube2)
    ctx.eq(cube2.cube_to_world(y), w, "cube -> other cube keeps the world point")
    ctx.eq(cube2.transform_points(y, "cube", "cube", to_cube=cube), x, "cube -> cube2 -> cube")
    # vectors between two cubes: exactly the linear part of the point map, and path independent through WORLD
    v12 = cube.transform_vectors(v, "cube", "cube", to_cube=cube2)
    ctx.eq(v12, cube.transform_points(x + v, "cube", "cube", to_cube=cube2) - y, "cube -> other cube: vectors == linear part of the point map")
    ctx.eq(v12, cube2.transform_vectors(cube.transform_vectors(v, "cube", "world"), "world", "cube"), "cube -> other cube: vectors == through WORLD")
    ctx.eq(cube2.transform_vectors(v12, "cube", "cube", to_cube=cube), v, "cube -> cube2 -> cube: vectors round trip")


def ob_rounding(ctx, D, A, B, other):
    """Default rounding (6 / 12 decimals) perturbs each coordinate by at most half a unit of the last kept decimal,
    so inverses hold up to that bound."""
    ctx.exact_rounding = True  # this obligation is about the rounding itself
    g = geom.concrete_grid(D, ctx.seed, 0)
    h = geom.concrete_grid(D, ctx.seed, 1) if other else None
    x = _pts(ctx, D, seed=ctx.seed)
    y_exact = g.transform_points(x, A, B, to_grid=h, decimals=None)
    y = g.transform_points(x, A, B, to_grid=h)
    k = 12 if B in ("cube", "cube_corners") else (6 if B == "grid" else None)
    if k is None:
        ctx.eq(y, y_exact, f"{A}->{B}: world coordinates are not rounded")
    else:
        ctx.close(y, y_exact, Fraction(1, 2) / Fraction(10) ** k, f"{A}->{B}: |rounded - exact| <= 0.5e-{k}")


# ------------------------------------------------------------------ catalogue
def obligations(tier: str, seed: int):
    obs = []
    Ds = (2, 3)
    flips = (0,) if tier == "quick" else (0, 1, 2, 3)
    for D in Ds:
        for A in AXES:
            for other in (False, True):
                ac = (hash((D, A, other)) + seed) % 2 == 0
                for flip in flips:
                    sfx = f"D{D}-{A}-{'two' if other else 'one'}-f{flip}"
                    p = dict(D=D, A=A, other=other, ac=ac, flip=flip)
                    obs.append((f"roundtrip-{sfx}", ob_roundtrip, p))
                    if flip == 0 or tier == "thorough":
                        obs.append((f"reference-{sfx}", ob_reference, p))
                    if flip == 0 and other:
                        for rel in ("same-domain", "same-sampling"):
                            obs.append((f"reference-D{D}-{A}-{rel}", ob_reference, dict(D=D, A=A, other=rel, ac=ac)))
                    if flip == 0:
                        obs.append((f"triple-{sfx}", ob_triple, p))
                        obs.append((f"vectors-{sfx}", ob_vectors, p))
        for ac in (True, False):
            obs.append((f"anchors-D{D}-ac{int(ac)}", ob_anchors, dict(D=D, ac=ac)))
            obs.append((f"anchors-origin-D{D}-ac{int(ac)}", ob_anchors, dict(D=D, ac=ac, use_origin=True)))
            obs.append((f"cube-D{D}-ac{int(ac)}", ob_cube, dict(D=D, a=ac)))
        obs.append((f"functional-D{D}", ob_functional, dict(D=D, ac=bool(seed % 2))))
    size_sets = {2: [(3, 4), (1, 5), (6, 2)], 3: [(2, 3, 4), (3, 1, 2)]}
    if tier == "thorough":
        size_sets = {2: [(3, 4), (1, 5), (6, 2), (7, 5), (2, 2), (9, 3)], 3: [(2, 3, 4), (3, 1, 2), (4, 4, 3), (2, 2, 2), (5, 3, 2)]}
    for D in Ds:
        for sz in size_sets[D]:
            obs.append((f"coords-D{D}-{'x'.join(map(str, sz))}", ob_coords, dict(D=D, sizes=sz, ac_grid=bool((sum(sz) + seed) % 2))))
            if all(m > 1 for m in sz):
                for a in (True, False):
                    obs.append((f"identity-resample-D{D}-{'x'.join(map(str, sz))}-ac{int(a)}", ob_identity_resample, dict(D=D, sizes=sz, a=a)))
    ns = [1, 2, 3, 4, 5, 6] if tier == "quick" else list(range(1, 18)) + [32, 33, 64, 100, 255, 256, 1000, 4095, 4096]
    for n in ns:
        for a in (True, False):
            obs.append((f"lattice-n{n}-ac{int(a)}", ob_lattice, dict(n=n, a=a)))
    for a in (True, False):
        obs.append((f"lattice-count-all-n-ac{int(a)}", ob_lattice_count, dict(a=a)))
    pairs = [("world", "grid"), ("world", "cube"), ("grid", "cube_corners"), ("cube", "world")]
    if tier == "thorough":
        pairs = [(A, B) for A in AXES for B in AXES if A != B]
    for D in Ds:
        for (A, B) in pairs:
            for other in ((False,) if tier == "quick" else (False, True)):
                obs.append((f"rounding-D{D}-{A}-{B}-{'two' if other else 'one'}", ob_rounding, dict(D=D, A=A, B=B, other=other)))
    return obs
