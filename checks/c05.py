"""C05 - Resampling onto any oriented grid matches an independent reference resampler."""
from __future__ import annotations

import itertools
import math

import torch

from vlib import geom

PROPERTY = "C05"
EXPLANATION = (
    "Bounded symbolic execution + SMT against a reference model. The reference resampler (ITK's documented geometry P = O + R diag(s) i and its "
    "linear / nearest interpolator written as hat weights in the harness, none of deepali's code) is validated numerically against real "
    "SimpleITK.Resample with the identity transform at every witness. Image.sample / ImageBatch.sample(grid | coords) and the SampleImage / "
    "AlignImage / TransformImage modules are executed on concrete rational grid pairs (rotated, anisotropic, either align_corners, different "
    "sizes) with free symbolic voxel values and a symbolic constant padding value; z3 decides (linear real arithmetic) that every target "
    "sample inside the source field of view equals the reference value for all image contents."
)
ASSUMPTIONS = [
    "trusted: reference resampler in this file, compared with SimpleITK.Resample at each witness (ModelMismatch aborts the obligation)",
    "grids are concrete rational pairs; interpolation weights come from the real grid_sample kernel (float32) and are compared within 1e-3 for |voxel| <= 8",
    "'inside the source field of view': continuous source index in [0, n-1] per axis (for border padding also the half-sample rim where ITK clamps)",
    "nearest neighbour: samples within 1e-3 of a tie are excluded (rounding convention at exact ties is not part of the property)",
]
BOUNDS = {"quick": dict(D=[2, 3], pairs=4, sizes="3..4 per axis", N=[1, 2]), "thorough": dict(D=[2, 3], pairs=12, sizes="3..5 per axis", N=[1, 2])}


class ModelMismatch(Exception):
    pass


def _attrs(g):
    return dict(n=list(g.size()), O=g.origin().double(), s=g.spacing().double(), R=g.direction().double())


def _src_index(src, tgt):
    """Continuous source index of every target sample (reference geometry), shape (*tgt_shape, D), order (x, ...)."""
    S, T = _attrs(src), _attrs(tgt)
    shape = tuple(reversed(T["n"]))
    idx = torch.stack(torch.meshgrid(*[torch.arange(m, dtype=torch.float64) for m in shape], indexing="ij"), dim=-1).flip(-1)
    P = T["O"] + (idx * T["s"]) @ T["R"].t()
    return ((P - S["O"]) @ S["R"]) / S["s"]


def ref_resample(I, src, tgt, mode="linear", padding="zeros", cval=0.0):
    """I: (C, *src_shape) symbolic voxels.  Returns (values (C, *tgt_shape), mask of samples the property covers)."""
    S = _attrs(src)
    n = S["n"]
    D = len(n)
    ci = _src_index(src, tgt)  # (..., D) x-first
    shape = ci.shape[:-1]
    hi = torch.tensor([m - 1 for m in n], dtype=torch.float64)
    inside = ((ci >= -1e-9) & (ci <= hi + 1e-9)).all(-1)
    rim = ((ci >= -0.5 + 1e-6) & (ci <= hi + 0.5 - 1e-6)).all(-1)
    cover = rim if padding == "border" else inside
    out = []
    C = I.shape[0]
    flatI = I.reshape(C, -1)
    strides = [1]
    for m in n[:-1]:
        strides.append(strides[-1] * m)  # x fastest
    vals = torch.zeros((C,) + tuple(shape), dtype=I.dtype)
    res = []
    for pos in itertools.product(*[range(m) for m in shape]):
        if not bool(cover[pos]):
            res.append(torch.zeros(C, dtype=I.dtype))
            continue
        c = ci[pos].clamp(min=torch.zeros(D, dtype=torch.float64), max=hi)
        if mode == "nearest":
            k = [int(math.floor(float(c[d]) + 0.5)) for d in range(D)]
            res.append(flatI[:, sum(min(max(k[d], 0), n[d] - 1) * strides[d] for d in range(D))])
            continue
        base = [min(int(math.floor(float(c[d]))), max(n[d] - 2, 0)) for d in range(D)]
        acc = torch.zeros(C, dtype=I.dtype)
        for corner in itertools.product((0, 1), repeat=D):
            w = 1.0
            for d in range(D):
                f = float(c[d]) - base[d]
                w *= f if corner[d] else 1.0 - f
            if w == 0.0:
                continue
            k = [min(base[d] + corner[d], n[d] - 1) for d in range(D)]
            acc = acc + flatI[:, sum(k[d] * strides[d] for d in range(D))] * w
        res.append(acc)
    vals = torch.stack(res, dim=-1).reshape((C,) + tuple(shape))
    if mode == "nearest":
        frac = (ci - ci.floor() - 0.5).abs()
        cover = cover & (frac > 1e-3).all(-1)
    return vals, cover


def _validate_model_with_sitk(I_num, src, tgt, mode):
    """Real SimpleITK.Resample (identity transform) agrees with the reference model on covered samples."""
    import SimpleITK as sitk

    S, T = _attrs(src), _attrs(tgt)
    D = len(S["n"])
    arr = I_num[0].double().numpy()
    img = sitk.GetImageFromArray(arr)
    img.SetOrigin(S["O"].tolist()); img.SetSpacing(S["s"].tolist()); img.SetDirection(S["R"].flatten().tolist())
    ref = sitk.Image(T["n"], sitk.sitkFloat64)
    ref.SetOrigin(T["O"].tolist()); ref.SetSpacing(T["s"].tolist()); ref.SetDirection(T["R"].flatten().tolist())
    interp = sitk.sitkLinear if mode == "linear" else sitk.sitkNearestNeighbor
    out = sitk.Resample(img, ref, sitk.Transform(D, sitk.sitkIdentity), interp, 0.0, sitk.sitkFloat64)
    got = torch.from_numpy(sitk.GetArrayFromImage(out))
    vals, cover = ref_resample(I_num[:1].double(), src, tgt, mode, "zeros")
    if not torch.allclose(got[cover], vals[0][cover], rtol=1e-4, atol=1e-4):
        raise ModelMismatch(f"reference resampler disagrees with SimpleITK: max diff {(got[cover] - vals[0][cover]).abs().max()}")


def _pair(D, k, a_src, a_tgt, seed, size_k=None):
    src_sizes = {2: [(4, 3), (3, 4), (4, 4)], 3: [(3, 3, 2), (3, 2, 3)]}[D]
    tgt_sizes = {2: [(3, 4), (4, 3), (3, 3)], 3: [(2, 3, 3), (3, 3, 2)]}[D]
    sk = k if size_k is None else size_k
    src = geom.concrete_grid(D, seed, k, align_corners=a_src, sizes=src_sizes[sk % len(src_sizes)])
    tgt = geom.concrete_grid(D, seed, k + 1, align_corners=a_tgt, sizes=tgt_sizes[sk % len(tgt_sizes)])
    # overlapping domains: put the target near the source centre, somewhat finer
    tgt = tgt.center(src.center() + 0.1875).spacing(tgt.spacing() * 0.5)
    return src, tgt


def _voxels(ctx, name, N, C, shape):
    n = N * C
    for m in shape:
        n *= m
    return ctx.reals(name, [((7 * i) % 13 - 6) / 2 for i in range(n)], ge=-8, le=8, nice=(-8, 8)).reshape((N, C) + tuple(shape))


def _num(ctx, t):
    if ctx.mode == "sym":
        with ctx.eng.suspended():
            return t.detach().clone()
    return t.detach().clone()


def ob_sample(ctx, D, k, a_src, a_tgt, mode, padding, N, per_image):
    from deepali.data.image import ImageBatch, Image

    grids = []
    tgt = None
    for m in range(N):
        s, t = _pair(D, k + (m if per_image else 0), a_src, a_tgt, ctx.seed, size_k=k)
        if m > 0:
            s = s.center(grids[0].center() - 0.125)  # overlapping fields of view
        grids.append(s)
        tgt = tgt or t
    shape = grids[0].shape
    I = _voxels(ctx, "I", N, 1, shape)
    _validate_model_with_sitk(_num(ctx, I[0]), grids[0], tgt, mode)
    cval = None
    pad_arg = padding
    if padding == "constant":
        cval = ctx.reals("c", 2.5, ge=-8, le=8, nice=(-8, 8))
        pad_arg = 2.5  # a Python scalar in the API; the value itself is part of the path (concretised)
    batch = ImageBatch(I, grids)
    out = batch.sample(tgt, mode=mode, padding=pad_arg) if N > 1 else Image(I[0], grids[0]).sample(tgt, mode=mode, padding=pad_arg).batch()
    ctx.reach()
    ctx.eq(torch.tensor(list(out.shape[2:])), torch.tensor(list(tgt.shape)), "sampled image has the target shape")
    for m in range(N):
        ref, cover = ref_resample(I[m], grids[m], tgt, mode, "border" if padding == "border" else "zeros")
        if int(cover.sum()) == 0:
            ctx.notes.append("no covered sample")
            continue
        ctx.close(out.tensor()[m][:, cover], ref[:, cover], 1e-3, f"image {m}: {mode}/{padding} sampling == reference resampler ({int(cover.sum())} samples inside the field of view)")
        ctx.true(torch.tensor([out.grids()[m] == tgt]), f"image {m}: result carries the target grid")


def ob_identity(ctx, D, k, a):
    """Sampling on its own grid returns the image; sampling at explicit coords == sampling on the grid they came from."""
    from deepali.data.image import ImageBatch
    from deepali.core.grid import grid_transform_points, Axes

    src, tgt = _pair(D, k, a, not a, ctx.seed)
    I = _voxels(ctx, "I", 2, 1, src.shape)
    batch = ImageBatch(I, src)
    same = batch.sample(src)
    ctx.eq(same.tensor(), I, "sample(own grid) returns the same values")
    same2 = batch.sample(src.clone())
    ctx.eq(same2.tensor(), I, "sample(equal grid) returns the same values")
    on_grid = batch.sample(tgt, padding="border")
    axes = Axes.from_align_corners(a)
    coords = tgt.coords(align_corners=a)
    coords = grid_transform_points(coords, tgt, axes, src, axes).unsqueeze(0)
    at_coords = batch.sample(coords, padding="border")
    ctx.eq(at_coords, on_grid.tensor(), "sample(coords) == sample(grid) for coords = grid points mapped to the image cube")


def ob_modules(ctx, D, k, a_src, a_tgt, which):
    from deepali.modules.sample import SampleImage, AlignImage, TransformImage

    src, tgt = _pair(D, k, a_src, a_tgt, ctx.seed)
    I = _voxels(ctx, "I", 1, 2, src.shape)
    ref, cover = ref_resample(I[0], src, tgt, "linear", "border")
    if which == "sample":
        mod = SampleImage(tgt, src, sampling="linear", padding="border")
        out = mod(tgt.coords(align_corners=tgt.align_corners()).unsqueeze(0), I)
    elif which == "align":
        out = AlignImage(tgt, src, sampling="linear", padding="border")(None, I)
    else:
        out = TransformImage(tgt, src, sampling="linear", padding="border")(None, I)
    ctx.close(out[0][:, cover], ref[:, cover], 1e-3, f"{which} module == reference resampler")


def obligations(tier: str, seed: int):
    obs = []
    for D in (2, 3):
        ks = (0, 1) if tier == "quick" else (0, 1, 2, 3)
        for k in ks:
            for a_src, a_tgt in ((True, True), (True, False), (False, True), (False, False)):
                if tier == "quick" and (k + int(a_src) + 2 * int(a_tgt) + D) % 2:
                    continue
                for mode, padding in (("linear", "zeros"), ("linear", "border"), ("linear", "constant"), ("nearest", "zeros"), ("nearest", "border")):
                    obs.append((f"sample-D{D}-p{k}-ac{int(a_src)}{int(a_tgt)}-{mode}-{padding}-N1", ob_sample, dict(D=D, k=k, a_src=a_src, a_tgt=a_tgt, mode=mode, padding=padding, N=1, per_image=False)))
                obs.append((f"sample-D{D}-p{k}-ac{int(a_src)}{int(a_tgt)}-linear-border-N2-shared", ob_sample, dict(D=D, k=k, a_src=a_src, a_tgt=a_tgt, mode="linear", padding="border", N=2, per_image=False)))
                obs.append((f"sample-D{D}-p{k}-ac{int(a_src)}{int(a_tgt)}-linear-zeros-N2-per-image", ob_sample, dict(D=D, k=k, a_src=a_src, a_tgt=a_tgt, mode="linear", padding="zeros", N=2, per_image=True)))
                for which in ("sample", "align", "transform"):
                    obs.append((f"module-{which}-D{D}-p{k}-ac{int(a_src)}{int(a_tgt)}", ob_modules, dict(D=D, k=k, a_src=a_src, a_tgt=a_tgt, which=which)))
            for a in (True, False):
                obs.append((f"identity-D{D}-p{k}-ac{int(a)}", ob_identity, dict(D=D, k=k, a=a)))
    return obs
