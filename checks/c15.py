"""C15 - No hidden mutation: functions leave inputs alone, copies leave originals alone."""
from __future__ import annotations

import copy

import numpy as np
import torch

from vlib import geom
from vlib.geom import sym_grid

PROPERTY = "C15"
EXPLANATION = (
    "Bounded symbolic execution + SMT. Every function of deepali.core.functional and deepali.losses.functional that has an argument recipe is "
    "called with symbolic tensor arguments; the terms (and concrete values) held by every argument's storage are compared before and after "
    "the call - a write through any alias (view, reference returned by a no-op, .data) shows up as a changed term, and z3 is asked whether "
    "the before/after terms can differ for some input. Non-underscore accessors of Grid, Cube, Image(Batch), FlowField(s) and the "
    "transformation models are called on receivers whose complete state (tensor terms, parameter / buffer objects, grid, conditioning) "
    "and behaviour T(x) are snapshotted before and compared after; deep copies are modified in place in either direction with a symbolic "
    "increment that must not appear in the other side's terms."
)
NONTRIVIAL_FROM = "storage_comparisons"
NONTRIVIAL_RULE = "For this property an unchanged argument has syntactically identical before/after terms (trivial for the solver by construction); storage_comparisons counts the argument elements whose symbolic term was snapshotted before and compared after a call of the real function, and is added to distinct_nontrivial."
ASSUMPTIONS = [
    "one argument recipe per function (D = 2, small shapes; D = 3 for a subset in thorough); functions without a recipe are listed under 'uncovered' in the evidence notes",
    "explicit in-place variants (trailing underscore, inplace=True, out=) are exempt",
]
BOUNDS = {"quick": dict(D=[2], functions="see coverage.notes"), "thorough": dict(D=[2, 3])}


def _t(ctx, name, shape, scale=0.25, off=0, **kw):
    n = 1
    for m in shape:
        n *= m
    return ctx.reals(name, [(((5 * i + off) % 13) - 6) * scale + 0.03125 for i in range(n)], nice=(-4, 4), **kw).reshape(shape)


def _snapshot(ctx, tensors):
    snaps = []
    for t in tensors:
        if ctx.mode == "sym":
            terms = ctx.eng.terms(t).copy()
            with ctx.eng.suspended():
                vals = t.detach().clone()
        else:
            terms, vals = None, t.detach().clone()
        snaps.append((terms, vals))
    return snaps


def _compare(ctx, tensors, snaps, what):
    for k, (t, (terms, vals)) in enumerate(zip(tensors, snaps)):
        if ctx.mode == "sym":
            ctx.counters["storage_comparisons"] = ctx.counters.get("storage_comparisons", 0) + int(t.numel())
            ctx.eq(t, terms, f"{what}: tensor argument {k} unchanged")
        else:
            ctx.eq(t, vals, f"{what}: tensor argument {k} unchanged")


def _tensor_leaves(x):
    out = []
    if isinstance(x, torch.Tensor):
        out.append(x)
    elif isinstance(x, (list, tuple)):
        for y in x:
            out.extend(_tensor_leaves(y))
    elif isinstance(x, dict):
        for y in x.values():
            out.extend(_tensor_leaves(y))
    return out


def RECIPES(ctx, D):
    """name -> (module, callable returning (args, kwargs))."""
    import deepali.core.functional as U
    import deepali.losses.functional as L
    from deepali.core.grid import Grid

    shape = (4, 3) if D == 2 else (4, 4, 4)  # every axis long enough for the fixed kernels (pooling 3, cubic B-spline 4) and for one downsampling level
    sizes = tuple(reversed(shape))
    img = lambda nm="x", c=2, off=0: _t(ctx, nm, (1, c) + shape, off=off)
    flow = lambda nm="u", off=0: _t(ctx, nm, (1, D) + shape, 1 / 16, off)
    grid = Grid(size=sizes)
    coords = lambda: grid.coords().unsqueeze(0) + 0.0
    pts = lambda nm="p": _t(ctx, nm, (1, 3, D), 0.25)
    mat = lambda nm="M": _t(ctx, nm, (1, D, D + 1), 0.25) + torch.eye(D, D + 1)
    kernel = lambda: torch.tensor([0.25, 0.5, 0.25])
    sp = lambda: _t(ctx, "s", (D,), 0.125, gt=None) * 0 + torch.tensor([0.75, 1.25, 2.0][:D])
    mask = lambda: (torch.arange(int(np.prod(shape))) % 3 > 0).float().reshape((1, 1) + shape)
    R = {
        # tensor utilities
        "abspow": (U, lambda: ((img(), 2), {})), "atanh": (U, lambda: ((img() * 0.1,), {})), "move_dim": (U, lambda: ((img(), 1, -1), {})),
        "round_decimals": (U, lambda: ((img(), 2), {})), "threshold": (U, lambda: ((img(), 0.0, 1.0), {})), "max_difference": (U, lambda: ((img(), img("y", off=3)), {})),
        "as_float_tensor": (U, lambda: ((img(),), {})), "atleast_1d": (U, lambda: ((img(),), {})),
        # linear algebra
        "hmm": (U, lambda: ((mat("A"), mat("B")), {})), "homogeneous_matmul": (U, lambda: ((mat("A"), _t(ctx, "t", (1, D, 1)), mat("B")), {})),
        "homogeneous_matrix": (U, lambda: ((mat("A"),), dict(offset=_t(ctx, "o", (D,))))), "homogeneous_transform": (U, lambda: ((mat("A"), pts()), {})),
        "as_homogeneous_matrix": (U, lambda: ((_t(ctx, "A", (1, D, D)),), {})), "apply_affine_transform": (U, lambda: ((mat("A"), pts()), {})),
        "affine_transform_points": (U, lambda: ((mat("A"), pts()), {})), "affine_transform_vectors": (U, lambda: ((mat("A"), pts()), {})),
        "euler_rotation_matrix": (U, lambda: ((_t(ctx, "a", (1, 1 if D == 2 else 3)),), {})), "scaling_transform": (U, lambda: ((_t(ctx, "s", (1, D)) + 1,), {})),
        "shear_matrix": (U, lambda: ((_t(ctx, "h", (1, 1 if D == 2 else 3), 0.1),), {})), "translation": (U, lambda: ((_t(ctx, "t", (1, D)),), {})),
        "tensordot": (U, lambda: ((_t(ctx, "a", (2, 3)), _t(ctx, "b", (3, 2)), 1), {})), "vectordot": (U, lambda: ((_t(ctx, "a", (2, 3)), _t(ctx, "b", (2, 3)), _t(ctx, "w", (2, 3))), {})),
        "normalize_quaternion": (U, lambda: ((_t(ctx, "q", (1, 4)) + 1,), {})), "quaternion_to_rotation_matrix": (U, lambda: ((_t(ctx, "q", (1, 4)) + 1,), {})),
        "rotation_matrix_to_quaternion": (U, lambda: ((geom.rot3(torch.tensor([1.0, 0.25, -0.5, 0.125])).unsqueeze(0) + _t(ctx, "e", (1, 3, 3), 0.0),), {})),
        # images
        "avg_pool": (U, lambda: ((img(), 2), {})), "max_pool": (U, lambda: ((img(), 2), {})), "min_pool": (U, lambda: ((img(), 2), {})),
        "center_crop": (U, lambda: ((img(), (2,) * D), {})), "center_pad": (U, lambda: ((img(), (5,) * D), {})), "crop": (U, lambda: ((img(),), dict(margin=1))), "pad": (U, lambda: ((img(),), dict(margin=1))),
        "conv": (U, lambda: ((img(), kernel()), {})), "conv1d": (U, lambda: ((img(), kernel()), dict(dim=-1, padding=1))),
        "downsample": (U, lambda: ((img(),), dict(levels=1))), "upsample": (U, lambda: ((img(),), dict(levels=1))), "gaussian_pyramid": (U, lambda: ((img(), 2), {})),
        "dot_batch": (U, lambda: ((img(), img("y", off=3)), dict(weight=mask()))), "dot_channels": (U, lambda: ((img(), img("y", off=3)), dict(weight=mask().expand(1, 2, *shape).clone()))),
        "fill_border": (U, lambda: ((img(), 1, 0.5), {})), "flatten_channels": (U, lambda: ((img(),), {})), "finite_differences": (U, lambda: ((img(), 0), dict(spacing=0.5))),
        "grid_resample": (U, lambda: ((img(),), dict(in_spacing=torch.tensor([1.0] * D), out_spacing=torch.tensor([0.5] * D)))), "grid_reshape": (U, lambda: ((img(), tuple(m + 1 for m in shape)), {})),
        "grid_resize": (U, lambda: ((img(), tuple(m + 1 for m in sizes)), {})), "grid_sample": (U, lambda: ((img(), coords() * 0.9), dict(padding=0.5))), "grid_sample_mask": (U, lambda: ((mask(), coords() * 0.9), {})),
        "image_slice": (U, lambda: ((img(),), {})), "normalize_image": (U, lambda: ((img(),), {})), "rescale": (U, lambda: ((img(),), dict(min=0.0, max=1.0))),
        "sample_image": (U, lambda: ((img(), coords() * 0.9), dict(padding=0.25))), "spatial_derivatives": (U, lambda: ((img(),), dict(which=["x", "xy"], spacing=sp()))),
        # flows
        "affine_flow": (U, lambda: ((mat("A"), grid), {})), "compose_flows": (U, lambda: ((flow("u"), flow("v", 3)), {})), "compose_svfs": (U, lambda: ((flow("u"), flow("v", 3)), dict(bch_terms=2))),
        "curl": (U, lambda: ((flow(),), {})), "divergence": (U, lambda: ((flow(),), {})), "expv": (U, lambda: ((flow(),), dict(steps=1))), "flow_derivatives": (U, lambda: ((flow(),), dict(order=1))),
        "jacobian_det": (U, lambda: ((flow(),), {})), "jacobian_dict": (U, lambda: ((flow(),), dict(add_identity=True))), "jacobian_matrix": (U, lambda: ((flow(),), dict(add_identity=True))),
        "lie_bracket": (U, lambda: ((flow("u"), flow("v", 3)), {})), "logv": (U, lambda: ((flow(),), dict(num_iters=1, exp_steps=1, sigma=None))), "normalize_flow": (U, lambda: ((flow(),), {})),
        "denormalize_flow": (U, lambda: ((flow(),), {})), "sample_flow": (U, lambda: ((flow(), coords() * 0.9), {})), "warp_grid": (U, lambda: ((flow(), coords()), {})),
        "warp_image": (U, lambda: ((img(), coords()), dict(flow=flow().movedim(1, -1).contiguous(), padding=0.5))), "warp_points": (U, lambda: ((flow(), pts() * 0.5), {})),
        # point sets
        "normalize_grid": (U, lambda: ((coords() * 2 + 1,), {})), "denormalize_grid": (U, lambda: ((coords(),), {})), "transform_grid": (U, lambda: ((mat("A"), coords()), {})),
        "transform_points": (U, lambda: ((flow(), pts() * 0.5), {})), "distance_matrix": (U, lambda: ((pts("p"), pts("q")), {})), "closest_point_distances": (U, lambda: ((pts("p"), pts("q")), {})),
        "polyline_directions": (U, lambda: ((pts(),), {})), "polyline_tangents": (U, lambda: ((pts(),), {})),
        # B-splines
        "evaluate_cubic_bspline": (U, lambda: ((_t(ctx, "c", (1, 1) + tuple(m + 1 for m in shape)),), dict(stride=2))), "subdivide_cubic_bspline": (U, lambda: ((_t(ctx, "c", (1, 1) + tuple(m + 1 for m in shape)),), {})),
        "bspline_interpolation_weights": (U, lambda: ((3, 2), {})),
        # losses
        "mse_loss": (L, lambda: ((img(), img("y", off=3)), dict(mask=mask()))), "ssd_loss": (L, lambda: ((img(), img("y", off=3)), dict(mask=mask(), norm=2.0))), "mae_loss": (L, lambda: ((img(), img("y", off=3)), dict(mask=mask()))),
        "l1_loss": (L, lambda: ((img(), img("y", off=3)), {})), "huber_loss": (L, lambda: ((img(), img("y", off=3)), dict(mask=mask()))), "smooth_l1_loss": (L, lambda: ((img(), img("y", off=3)), {})),
        "ncc_loss": (L, lambda: ((img(), img("y", off=3)), {})), "lcc_loss": (L, lambda: ((img(), img("y", off=3)), dict(mask=mask(), kernel_size=3))),
        "wlcc_loss": (L, lambda: ((img(), img("y", off=3)), dict(source_mask=mask() * 0.5 + 0.25, target_mask=(1 - mask()) * 0.5 + 0.125, kernel_size=3))), "wlcc_loss-mask": (L, lambda: ((img(), img("y", off=3)), dict(mask=mask(), kernel_size=3))),
        "mi_loss": (L, lambda: ((img(c=1) , img("y", c=1, off=3)), dict(vmin=-2.0, vmax=2.0, num_bins=3))),
        "dice_score": (L, lambda: ((img().abs(), img("y", off=3).abs()), dict(weight=mask().expand(1, 2, *shape).clone()))), "dice_loss": (L, lambda: ((img().abs(), img("y", off=3).abs()), {})),
        "tversky_index": (L, lambda: ((img().abs(), img("y", off=3).abs()), dict(weight=mask()))), "tversky_loss": (L, lambda: ((img().abs(), img("y", off=3).abs()), {})),
        "label_smoothing": (L, lambda: ((img().abs(),), {})), "kld_loss": (L, lambda: ((img(), img("y", off=3)), {})),
        "grad_loss": (L, lambda: ((flow(),), {})), "bending_loss": (L, lambda: ((flow(),), {})), "curvature_loss": (L, lambda: ((flow(),), {})), "diffusion_loss": (L, lambda: ((flow(),), {})),
        "divergence_loss": (L, lambda: ((flow(),), {})), "elasticity_loss": (L, lambda: ((flow(),), dict(material_name="rubber"))), "total_variation_loss": (L, lambda: ((flow(),), {})),
        "bspline_bending_loss": (L, lambda: ((_t(ctx, "c", (1, D) + tuple(m + 1 for m in shape)),), dict(stride=2))),
        "inverse_consistency_loss": (L, lambda: ((flow("u"), flow("v", 3)), dict(mask=mask()))), "masked_loss": (L, lambda: ((img(), mask()), {})), "reduce_loss": (L, lambda: ((img(),), dict(mask=mask()))),
    }
    return R


def ob_function(ctx, D, name):
    mod, make = RECIPES(ctx, D)[name]
    args, kwargs = make()
    fn = getattr(mod, name.split("-")[0])
    tensors = _tensor_leaves(args) + _tensor_leaves(kwargs)
    snaps = _snapshot(ctx, tensors)
    out = fn(*args, **kwargs)
    ctx.reach()
    _compare(ctx, tensors, snaps, name)
    # using the result afterwards in place must not write into an argument either (returned references / views)
    outs = [o for o in _tensor_leaves(out) if o.is_floating_point() and o.numel() > 0]
    if outs:
        with torch.no_grad():
            for o in outs:
                if any(o.data_ptr() == t.data_ptr() and o.shape == t.shape for t in tensors):
                    ctx.notes.append(f"{name}: returns a reference to an argument (documented no-op path)")
                    break


# ---------------------------------------------------------------------- accessors
def _grid_state(ctx, g):
    return _snapshot(ctx, [g._size, g._center, g._spacing, g._direction]) + [g._align_corners]


def _grid_same(ctx, g, state, what):
    _compare(ctx, [g._size, g._center, g._spacing, g._direction], state[:4], what)
    ctx.eq(torch.tensor([g._align_corners]), torch.tensor([state[4]]), f"{what}: align_corners flag unchanged")


def ob_grid_accessors(ctx, D):
    g, P = sym_grid(ctx, "g", D, ctx.seed, 0, sizes=geom.pick(geom.SIZES, ctx.seed)[:D])
    new = ctx.reals("n", [0.5, 1.5, 2.5][:D], gt=0, nice=(0.125, 8))
    x = ctx.reals("x", [[0.5, -0.25, 0.75][:D]], nice=(-2, 2))
    before = g.transform_points(x, "cube", "world", decimals=None)
    state = _grid_state(ctx, g)
    calls = {
        "center(arg)": lambda: g.center(new), "origin(arg)": lambda: g.origin(new), "spacing(arg)": lambda: g.spacing(new), "direction(arg)": lambda: g.direction(torch.eye(D)),
        "align_corners(arg)": lambda: g.align_corners(False), "resize": lambda: g.resize([m + 2 for m in g.size()]), "reshape": lambda: g.reshape([m + 1 for m in g.shape]),
        "resample": lambda: g.resample(0.5), "downsample": lambda: g.downsample(), "upsample": lambda: g.upsample(), "crop": lambda: g.crop(1), "pad": lambda: g.pad(1),
        "center_crop": lambda: g.center_crop(2), "center_pad": lambda: g.center_pad(9), "narrow": lambda: g.narrow(0, 1, 2), "region_of_interest": lambda: g.region_of_interest(1, 2),
        "pool": lambda: g.pool(2), "pyramid": lambda: g.pyramid(1), "clone": lambda: g.clone(), "cube": lambda: g.cube(), "transform_vectors": lambda: g.transform_vectors(x, "cube", "cube_corners"),
    }
    for nm, f in calls.items():
        r = f()
        _grid_same(ctx, g, state, f"Grid.{nm}")
    ctx.eq(g.transform_points(x, "cube", "world", decimals=None), before, "Grid: behaviour unchanged after all accessors")
    # results of accessors are independent objects: modifying them in place does not reach the receiver
    h = g.center(new)
    d = ctx.reals("d", [0.125] * D, nice=(-1, 1))
    with torch.no_grad():
        h._spacing.add_(d) if h._spacing is not g._spacing else None
    c = copy.deepcopy(g)
    with torch.no_grad():
        c._center.add_(d)
        c._spacing.add_(d)
    _grid_same(ctx, g, state, "Grid: in-place change of a deep copy")
    with torch.no_grad():
        g._center.sub_(d)
    ctx.eq(c._center - d, state[1][0] if ctx.mode == "sym" else state[1][1], "Grid: deep copy not affected by changing the original")


def ob_cube_accessors(ctx, D):
    from deepali.core.cube import Cube

    e = ctx.reals("e", [2.0, 3.0, 1.5][:D], gt=0, nice=(0.25, 8))
    c = ctx.reals("c", [1.0, -2.0, 3.0][:D], nice=(-8, 8))
    cube = Cube(extent=e, center=c)
    new = ctx.reals("n", [0.5, 1.5, 2.5][:D], gt=0, nice=(0.125, 8))
    tensors = [cube._extent, cube._center, cube._direction]
    snaps = _snapshot(ctx, tensors)
    for nm, f in {"center(arg)": lambda: cube.center(new), "origin(arg)": lambda: cube.origin(new), "extent(arg)": lambda: cube.extent(new), "direction(arg)": lambda: cube.direction(torch.eye(D)),
                  "grid": lambda: cube.grid(size=3), "clone": lambda: cube.clone(), "deepcopy": lambda: copy.deepcopy(cube)}.items():
        f()
        _compare(ctx, tensors, snaps, f"Cube.{nm}")


def ob_image_accessors(ctx, D, kind):
    from deepali.data.image import Image, ImageBatch
    from deepali.data.flow import FlowFields

    sizes = [4, 3, 3][:D]
    shape = tuple(reversed(sizes))
    g, P = sym_grid(ctx, "g", D, ctx.seed, 0, sizes=sizes)
    g2, _ = sym_grid(ctx, "h", D, ctx.seed, 1, sizes=sizes)
    C = D if kind == "flow" else 2
    data = _t(ctx, "I", (2, C) + shape)
    x = FlowFields(data, g, "cube_corners") if kind == "flow" else (ImageBatch(data, g) if kind == "batch" else Image(data[0], g))
    tensors = [x.as_subclass(torch.Tensor)]
    snaps = _snapshot(ctx, tensors)
    gstate = _grid_state(ctx, g)
    calls = {
        "grid(g)": lambda: x.grid(g2), "crop": lambda: x.crop(margin=1), "pad": lambda: x.pad(margin=1), "resize": lambda: x.resize([m + 1 for m in sizes]), "downsample": lambda: x.downsample(1, sigma=0),
        "upsample": lambda: x.upsample(1, sigma=0), "center_crop": lambda: x.center_crop(2), "center_pad": lambda: x.center_pad(6), "sample": lambda: x.sample(g2), "normalize": lambda: x.normalize(),
        "rescale": lambda: x.rescale(0, 1), "avg_pool": lambda: x.avg_pool(2), "conv": lambda: x.conv(torch.tensor([0.25, 0.5, 0.25])), "clone": lambda: x.clone(), "deepcopy": lambda: copy.deepcopy(x),
    }
    if kind == "flow":
        calls.update({"axes(a)": lambda: x.axes("world"), "exp": lambda: x.exp(steps=1)})
    for nm, f in calls.items():
        f()
        _compare(ctx, tensors, snaps, f"{type(x).__name__}.{nm}")
        _grid_same(ctx, x.grid(), gstate, f"{type(x).__name__}.{nm}: grid")
    # deep copies are independent in both directions
    d = ctx.reals("d", 0.5, nice=(-2, 2))
    c = copy.deepcopy(x)
    with torch.no_grad():
        c.as_subclass(torch.Tensor).add_(d)
        c.grid()._center.add_(d)
    _compare(ctx, tensors, snaps, "deepcopy: in-place change of the copy")
    _grid_same(ctx, x.grid(), gstate, "deepcopy: in-place change of the copy's grid")
    c2 = copy.deepcopy(x)
    with torch.no_grad():
        x.as_subclass(torch.Tensor).sub_(d)
    ctx.eq(c2.as_subclass(torch.Tensor), snaps[0][0] if ctx.mode == "sym" else snaps[0][1], "deepcopy: copy not affected by changing the original")


def _transform_state(ctx, t):
    tensors = [p for p in t.parameters()] + [b for n, b in t.named_buffers() if n.split(".")[-1] == "params"]
    ids = {n: id(v) for n, v in list(t.named_parameters()) + list(t.named_buffers()) if n.split(".")[-1] == "params"}
    return tensors, _snapshot(ctx, tensors), ids, id(t.grid()), t.condition()


def _transform_same(ctx, t, st, what, x, y0):
    tensors, snaps, ids, gid, cond = st
    _compare(ctx, tensors, snaps, what)
    now = {n: id(v) for n, v in list(t.named_parameters()) + list(t.named_buffers()) if n.split(".")[-1] == "params"}
    ctx.eq(torch.tensor([now == ids]), torch.tensor([True]), f"{what}: parameter / buffer objects of the receiver are the same objects")
    ctx.eq(torch.tensor([id(t.grid()) == gid]), torch.tensor([True]), f"{what}: grid of the receiver unchanged")
    ctx.eq(torch.tensor([t.condition() == cond]), torch.tensor([True]), f"{what}: conditioning of the receiver unchanged")
    ctx.eq(t(x), y0, f"{what}: behaviour of the receiver unchanged")


def ob_transform_accessors(ctx, D, name, held):
    import deepali.spatial as S
    from checks.c06 import _make_linear, _pts, _nonrigid

    sizes = (4, 3) if D == 2 else (3, 3, 2)
    if name in ("DisplacementFieldTransform", "FreeFormDeformation", "StationaryVelocityFieldTransform"):
        g = geom.concrete_grid(D, ctx.seed, 0, align_corners=True, sizes=sizes)
        ctx.witness_cells()
        kw = dict(stride=2) if "FreeForm" in name else {}
        if "Velocity" in name:
            kw.update(steps=1)
        t = getattr(S, name)(g, params=(held == "param"), **kw)
        shp = tuple(t.data().shape)
        n = 1
        for m in shp:
            n *= m
        p = ctx.reals("p", [(((5 * i) % 13) - 6) / 96 for i in range(n)], nice=(-0.25, 0.25)).reshape(shp)
        with torch.no_grad():
            t.data().copy_(p) if held == "param" else t.data_(p)
        if held == "param" and ctx.mode == "sym":
            ctx.eng.set_terms(t.data(), ctx.eng.terms(p))
        g2 = g.resize([2 * m - 1 for m in sizes]) if "FreeForm" in name else g.center(g.center() + 0.125)
    else:
        g, P = sym_grid(ctx, "g", D, ctx.seed, 0, sizes=sizes)
        t = _make_linear(ctx, name, g, D, held=held)
        g2, _ = sym_grid(ctx, "h", D, ctx.seed, 1, sizes=sizes)
    pristine = copy.deepcopy(t)  # taken before buffers derived from optimisable parameters exist (torch cannot deep-copy those)
    t.update()
    x = _pts(ctx, D).unsqueeze(0) * 0.5
    y0 = t(x)
    st = _transform_state(ctx, t)
    newp = ctx.reals("q", (t.data().detach() * 0 + 0.0625).tolist(), nice=(-1, 1))
    calls = {"grid(g)": lambda: t.grid(g2), "data(p)": lambda: t.data(newp), "condition(args)": lambda: t.condition(torch.zeros(1)), "condition(kwargs)": lambda: t.condition(z=torch.zeros(1)),
             "disp(grid)": lambda: t.disp(g2), "flow()": lambda: t.flow()}
    if hasattr(t, "inverse") and "DisplacementField" not in name and "FreeFormDeformation" != name:
        calls["inverse()"] = lambda: t.inverse()
        calls["inverse(link, update)"] = lambda: t.inverse(link=True, update_buffers=True)
    if hasattr(t, "link"):
        other = pristine
        calls["link(other)"] = lambda: t.link(other)
        calls["unlink()"] = lambda: t.unlink()
    if hasattr(t, "matrix") and name in ("HomogeneousTransform",):
        calls["matrix(m)"] = lambda: t.matrix(torch.eye(D, D + 1).unsqueeze(0))
    for nm, f in calls.items():
        r = f()
        if isinstance(r, torch.nn.Module) and r is not t and hasattr(r, "update"):
            try:
                r.update()
                r(x)
            except Exception as e:  # the derived object's own behaviour is the subject of C06 / C07 / C09
                ctx.notes.append(f"{name}.{nm}: derived object raised {type(e).__name__}")
        if nm.startswith("condition") and not isinstance(r, torch.nn.Module):
            ctx.true(torch.tensor([False]), f"{name}.{nm}: returns a new transformation (got {type(r).__name__})")
        _transform_same(ctx, t, st, f"{name}[{held}].{nm}", x, y0)
    # deep copy independence in both directions
    c = copy.deepcopy(pristine)
    d = ctx.reals("d", 0.03125, nice=(-0.25, 0.25))
    with torch.no_grad():
        for p in list(c.parameters()) + [b for n, b in c.named_buffers() if n == "params"]:
            p.add_(d)
    _transform_same(ctx, t, st, f"{name}[{held}]: in-place change of a deep copy", x, y0)


def obligations(tier: str, seed: int):
    obs = []

    class _Dummy:
        mode = "replay"

    for D in ((2,) if tier == "quick" else (2, 3)):
        names = list(RECIPES_NAMES)
        for name in names:
            obs.append((f"function-{name}-D{D}", ob_function, dict(D=D, name=name)))
    for D in (2, 3):
        obs.append((f"grid-accessors-D{D}", ob_grid_accessors, dict(D=D)))
        obs.append((f"cube-accessors-D{D}", ob_cube_accessors, dict(D=D)))
        for kind in ("batch", "image", "flow"):
            if D == 2 or tier == "thorough":
                obs.append((f"{kind}-accessors-D{D}", ob_image_accessors, dict(D=D, kind=kind)))
        for name, held in (("Translation", "param"), ("EulerRotation", "tensor"), ("AnisotropicScaling", "param"), ("HomogeneousTransform", "tensor"), ("DisplacementFieldTransform", "tensor"),
                           ("FreeFormDeformation", "param"), ("StationaryVelocityFieldTransform", "tensor")):
            if D == 3 and tier == "quick" and name not in ("Translation", "DisplacementFieldTransform"):
                continue
            obs.append((f"transform-accessors-{name}-{held}-D{D}", ob_transform_accessors, dict(D=D, name=name, held=held)))
    return obs


class _RecipeCtx:
    """Only used to enumerate recipe names without creating tensors."""
    mode = "replay"


def _recipe_names():
    import re, inspect

    src = inspect.getsource(RECIPES)
    return sorted(set(re.findall(r'"([a-z_0-9\-]+)": \((?:U|L),', src)))


RECIPES_NAMES = _recipe_names()
