"""C12 - Spatial derivatives of flow fields are exact on polynomial fields."""
from __future__ import annotations

import itertools

import torch

PROPERTY = "C12"
EXPLANATION = (
    "Bounded symbolic execution + SMT. Affine fields u = A x + b and quadratic fields with symbolic coefficients are sampled on a grid with "
    "symbolic spacing (scalar, per axis, per batch item) in the harness; flow_derivatives / jacobian_matrix / jacobian_det / divergence / curl / "
    "lie_bracket / spatial_derivatives run through the real convolution and finite-difference code for every mode; z3 decides equality with the "
    "analytic values for all coefficients and spacings (interior points for the one-sided and averaged schemes)."
)
ASSUMPTIONS = [
    "grid shapes 5^D (thorough: also 6x5(x7)); interior = points at distance >= order (>= 1 for prewitt/sobel) from the border",
    "bspline mode: coefficients are the sampled field; linear / quadratic coefficient sequences reproduce linear / quadratic splines (C14), hence analytic derivatives",
    "gaussian mode and sigma > 0 are not covered (approximate by design)",
]
BOUNDS = {"quick": dict(D=[2, 3], shapes=["5x5", "5x5x5"], N=[1, 2]), "thorough": dict(D=[2, 3], shapes=["5x5", "6x5", "5x5x5", "5x6x7"], N=[1, 2])}

FD_MODES = ("forward", "backward", "central", "forward_central_backward", "prewitt", "sobel")
LET = "xyz"
CH = "uvw"


def _spacing(ctx, kind, N, D):
    if kind == "scalar":
        s = ctx.reals("s", 0.75, gt=0, nice=(0.125, 8))
        return s, s.reshape(1, 1).expand(N, D)
    if kind == "axis":
        s = ctx.reals("s", [0.75, 1.25, 2.0][:D], gt=0, nice=(0.125, 8))
        return s, s.reshape(1, D).expand(N, D)
    s = ctx.reals("s", [[0.75, 1.25, 2.0][:D], [1.5, 0.5, 1.0][:D]][:N], gt=0, nice=(0.125, 8))
    return s, s


def _coords(shape, sp_nd):
    """Physical coordinates (N, D, *shape), component order (x, y, z); x is the last tensor axis."""
    N, D = sp_nd.shape
    idx = torch.stack(torch.meshgrid(*[torch.arange(m, dtype=torch.float32) for m in shape], indexing="ij"), dim=0).flip(0)  # (D, *shape) in x,y,z
    return idx.unsqueeze(0) * sp_nd.reshape((N, D) + (1,) * D)


def _affine(ctx, name, N, D, shape, sp_nd):
    A = ctx.reals(name + "A", [[(((3 * i + 5 * j + len(name)) % 7) - 3) / 4 for j in range(D)] for i in range(D)], nice=(-4, 4))
    b = ctx.reals(name + "b", [0.5, -1.0, 0.25][:D], nice=(-4, 4))
    x = _coords(shape, sp_nd)  # (N, D, ...)
    u = torch.einsum("cd,nd...->nc...", A, x) + b.reshape((1, D) + (1,) * D)
    return A, b, x, u


def _interior(t, D, m=1):
    sl = (slice(None), slice(None)) + (slice(m, -m),) * D
    return t[sl]


def ob_affine(ctx, D, mode, sp_kind, N, shape):
    from deepali.core import flow as F

    s, sp = _spacing(ctx, sp_kind, N, D)
    A, b, x, u = _affine(ctx, "u", N, D, shape, sp)
    kw = dict(mode=mode, spacing=s)
    exact_everywhere = mode == "forward_central_backward"
    cut = (lambda t: t) if exact_everywhere else (lambda t: _interior(t, D))
    ctx.reach()
    J = F.jacobian_matrix(u, **kw)  # (N, ..., X, D, D)
    Jc = J.movedim(-1, 1).movedim(-1, 1)  # (N, D(row), D(col), ...)
    for i in range(D):
        for j in range(D):
            ctx.eq(cut(Jc[:, i:i + 1, j]), A[i, j], f"[{mode}] d{CH[i]}/d{LET[j]} == A[{i},{j}]")
    det = F.jacobian_det(u, add_identity=False, **kw)
    ctx.eq(cut(det), torch.det(A), f"[{mode}] jacobian_det(add_identity=False) == det(A)")
    det1 = F.jacobian_det(u, add_identity=True, **kw)
    ctx.eq(cut(det1), torch.det(A + torch.eye(D)), f"[{mode}] jacobian_det(add_identity=True) == det(I + A)")
    ctx.eq(cut(F.divergence(u, **kw)), torch.trace(A), f"[{mode}] divergence == trace(A)")
    c = F.curl(u, **kw)
    if D == 2:
        ctx.eq(cut(c), A[1, 0] - A[0, 1], f"[{mode}] curl == dv/dx - du/dy")
    else:
        ref = torch.stack([A[2, 1] - A[1, 2], A[0, 2] - A[2, 0], A[1, 0] - A[0, 1]])
        ctx.eq(cut(c), ref.reshape((1, 3) + (1,) * D), f"[{mode}] curl == analytic rotation vector")
    # subset of keys == all keys; jacobian_dict add_identity
    allk = F.flow_derivatives(u, order=1, **kw)
    some = ["dv/dx", "du/d" + LET[D - 1]]
    sub = F.flow_derivatives(u, which=some, **kw)
    for k in some:
        ctx.eq(sub[k], allk[k], f"[{mode}] subset request {k} == value among all")
    jd = F.jacobian_dict(u, add_identity=True, **kw)
    ctx.eq(cut(jd[(0, 0)]), A[0, 0] + 1, f"[{mode}] jacobian_dict(add_identity) diagonal")
    ctx.eq(cut(jd[(0, 1)]), A[0, 1], f"[{mode}] jacobian_dict(add_identity) off-diagonal")


def ob_axis_spacing(ctx, D, mode, shape):
    """Per-axis spacing: the derivative along axis j is divided by the spacing of axis j and by no other (exact relation
    between two calls, also for modes whose kernels are not exact on polynomials, e.g. mode='gaussian')."""
    from deepali.core.image import spatial_derivatives

    s, sp = _spacing(ctx, "axis", 1, D)
    n = 1
    for m in shape:
        n *= m
    u = ctx.reals("u", [(((5 * i) % 13) - 6) / 4 for i in range(n)], nice=(-4, 4)).reshape((1, 1) + tuple(shape))
    c = ctx.reals("c", 2.5, gt=0, nice=(0.25, 4))
    kw = dict(mode=mode)
    if mode == "gaussian":
        kw["sigma"] = 0.7
    which = [LET[d] for d in range(D)] + ["xy"]
    base = spatial_derivatives(u, which=which, spacing=s, **kw)
    for j in range(D):
        scale = torch.ones(D)
        scaled = spatial_derivatives(u, which=which, spacing=torch.cat([s[:j], (s[j] * c).reshape(1), s[j + 1:]]), **kw)
        for d in range(D):
            k = LET[d]
            ref = base[k] / c if d == j else base[k]
            ctx.eq(scaled[k], ref, f"[{mode}] d/d{k} with spacing of axis {LET[j]} scaled by c")
        ctx.eq(scaled["xy"], base["xy"] / c if j < 2 else base["xy"], f"[{mode}] d2/dxdy with spacing of axis {LET[j]} scaled by c")


def ob_bracket(ctx, D, mode, shape):
    from deepali.core import flow as F

    s, sp = _spacing(ctx, "axis", 1, D)
    Au, bu, x, u = _affine(ctx, "u", 1, D, shape, sp)
    Av, bv, _, v = _affine(ctx, "vv", 1, D, shape, sp)
    w = F.lie_bracket(v, u, mode=mode, spacing=s)
    # [v, u] = Jac(v) u - Jac(u) v
    ref = torch.einsum("cd,nd...->nc...", Av, u) - torch.einsum("cd,nd...->nc...", Au, v)
    cut = (lambda t: t) if mode == "forward_central_backward" else (lambda t: _interior(t, D))
    ctx.eq(cut(w), cut(ref), f"[{mode}] lie_bracket(v, u) == Jv u - Ju v for affine fields")
    ctx.eq(cut(F.lie_bracket(u, v, mode=mode, spacing=s)), -cut(ref), f"[{mode}] lie_bracket antisymmetric")
    ctx.eq(cut(F.lie_bracket(u, u, mode=mode, spacing=s)), torch.zeros(1), f"[{mode}] [u, u] == 0")


def ob_quadratic(ctx, D, mode, shape):
    """Second derivatives of quadratic fields are exact in the interior; mixed derivatives symmetric."""
    from deepali.core import flow as F
    from deepali.core.image import spatial_derivatives

    s, sp = _spacing(ctx, "axis", 1, D)
    x = _coords(shape, sp)  # (1, D, ...)
    pairs = list(itertools.combinations_with_replacement(range(D), 2))
    Q = ctx.reals("Q", [[(((2 * c + 3 * k) % 7) - 3) / 4 for k in range(len(pairs))] for c in range(D)], nice=(-4, 4))
    L = ctx.reals("L", [[0.5, -0.25, 1.0][:D]] * D, nice=(-4, 4))
    u = torch.zeros((1, D) + tuple(shape))
    comps = []
    for c in range(D):
        f = sum(Q[c, k] * x[:, d] * x[:, e] for k, (d, e) in enumerate(pairs)) + sum(L[c, d] * x[:, d] for d in range(D))
        comps.append(f)
    u = torch.stack(comps, dim=1)
    m = 2
    der = F.flow_derivatives(u, order=2, mode=mode, spacing=s)
    for c in range(D):
        for k, (d, e) in enumerate(pairs):
            key = f"d{CH[c]}/d{LET[d]}{LET[e]}"
            ref = Q[c, k] * (2 if d == e else 1)
            ctx.eq(_interior(der[key], D, m), ref, f"[{mode}] {key} == analytic second derivative (interior)")
            if d != e:
                key2 = f"d{CH[c]}/d{LET[e]}{LET[d]}"
                ctx.eq(der[key2], der[key], f"[{mode}] mixed derivatives symmetric: {key2} == {key}")
    # scalar image API: spatial_derivatives with which / order filtering
    sd = spatial_derivatives(u[:, 0:1], which=["x", "xy", "yy"], order=2, mode=mode, spacing=s)
    ctx.eq(torch.tensor([sorted(sd.keys()) == ["xy", "yy"]]), torch.tensor([True]), "order=2 filters the requested keys")
    ctx.eq(sd["xy"], der["du/dxy"], "spatial_derivatives == flow_derivatives for component u")


def ob_bspline(ctx, D, stride, shape):
    """mode='bspline': analytic derivatives of the spline whose coefficients are the field values."""
    from deepali.core import flow as F

    s, sp = _spacing(ctx, "axis", 1, D)
    # coefficients are a linear / quadratic function of the control point index k; the spline is then the same
    # polynomial in the continuous index t (C14), and physical x = spacing * t / stride * ... -> derivative wrt index / spacing
    idx = torch.stack(torch.meshgrid(*[torch.arange(m, dtype=torch.float32) for m in shape], indexing="ij"), dim=0).flip(0)  # (D, ...)
    A = ctx.reals("A", [[(((3 * i + 5 * j) % 7) - 3) / 4 for j in range(D)] for i in range(D)], nice=(-4, 4))
    q = ctx.reals("q", [0.5, -0.75, 0.25][:D], nice=(-4, 4))
    comps = []
    for c in range(D):
        comps.append(sum(A[c, d] * idx[d] for d in range(D)) + q[c] * idx[0] * idx[0])
    u = torch.stack(comps).unsqueeze(0)
    der = F.flow_derivatives(u, order=1, mode="bspline", spacing=s, stride=stride)
    for c in range(D):
        for d in range(D):
            key = f"d{CH[c]}/d{LET[d]}"
            out = der[key]
            n_out = [(m - 3) * stride for m in shape]
            ctx.eq(torch.tensor(list(out.shape[2:])), torch.tensor(n_out), f"bspline {key}: output size (n - 3) * stride")
            # spline parameter of output sample i along x: t = 1 + i / stride (first evaluated point sits on control point 1)
            t0 = 1 + torch.arange(n_out[-1], dtype=torch.float32) / stride
            if d == 0:
                ref = (A[c, 0] + 2 * q[c] * t0) / s[0]
                ctx.eq(out, ref.reshape((1, 1) + (1,) * (D - 1) + (-1,)), f"bspline {key} == analytic derivative / spacing")
            else:
                ctx.eq(out, A[c, d] / s[d], f"bspline {key} == analytic derivative / spacing")
    s0 = s.clone()  # references use the values given by the caller, whatever happens to the argument afterwards
    der2 = F.flow_derivatives(u, which=["du/dxx", "du/dxy"], mode="bspline", spacing=s, stride=stride)
    ctx.eq(der2["du/dxx"], 2 * q[0] / (s0[0] * s0[0]), "bspline du/dxx == 2 q / sx^2")
    ctx.eq(der2["du/dxy"], torch.zeros(1), "bspline du/dxy == 0")
    # the same spacing tensor reused over several calls and keys, in both orders (the iteration order of a key set is arbitrary)
    for first, second in ((["du/dxy"], ["du/dxx"]), (["du/dxx"], ["du/dxy"]), (["dv/dxy"], ["du/dx", "dv/dx"])):
        F.flow_derivatives(u, which=first, mode="bspline", spacing=s, stride=stride)
        later = F.flow_derivatives(u, which=second, mode="bspline", spacing=s, stride=stride)
        if "du/dxx" in later:
            ctx.eq(later["du/dxx"], 2 * q[0] / (s0[0] * s0[0]), f"bspline du/dxx after {first[0]} with the same spacing tensor")
        if "du/dx" in later:
            t0 = 1 + torch.arange((shape[-1] - 3) * stride, dtype=torch.float32) / stride
            for c, key in ((0, "du/dx"), (1, "dv/dx")):
                ref = (A[c, 0] + 2 * q[c] * t0) / s0[0]
                ctx.eq(later[key], ref.reshape((1, 1) + (1,) * (D - 1) + (-1,)), f"bspline {key} after {first[0]} with the same spacing tensor")
    ctx.eq(s, s0, "bspline: the caller's spacing tensor is unchanged")


def obligations(tier: str, seed: int):
    obs = []
    shapes = {2: [(5, 5)], 3: [(5, 5, 5)]}
    if tier == "thorough":
        shapes = {2: [(5, 5), (5, 6)], 3: [(5, 5, 5), (5, 6, 7)]}
    for D in (2, 3):
        for shape in shapes[D]:
            sh = "x".join(map(str, shape))
            for k, mode in enumerate(FD_MODES):
                kinds = ("scalar", "axis", "batch") if tier == "thorough" else (("scalar", "axis", "batch")[(k + D + seed) % 3],)
                for sp_kind in kinds:
                    N = 2 if sp_kind == "batch" else 1
                    obs.append((f"affine-D{D}-{sh}-{mode}-{sp_kind}", ob_affine, dict(D=D, mode=mode, sp_kind=sp_kind, N=N, shape=shape)))
                if mode in ("forward_central_backward", "central", "sobel") or tier == "thorough":
                    obs.append((f"bracket-D{D}-{sh}-{mode}", ob_bracket, dict(D=D, mode=mode, shape=shape)))
                if mode in ("forward_central_backward", "central") or (tier == "thorough" and mode in ("forward", "backward")):
                    qshape = tuple(max(m, 7) for m in shape) if D == 2 else tuple(max(m, 6) for m in shape)
                    obs.append((f"quadratic-D{D}-{mode}", ob_quadratic, dict(D=D, mode=mode, shape=qshape)))
        obs.append((f"affine-D{D}-default-mode", ob_affine, dict(D=D, mode=None, sp_kind="axis", N=1, shape=shapes[D][0])))
        for mode in ("gaussian", "central", "bspline") if D == 2 or tier == "thorough" else ("gaussian",):
            obs.append((f"axis-spacing-D{D}-{mode}", ob_axis_spacing, dict(D=D, mode=mode, shape=(4, 5) if D == 2 else ((4, 4, 5) if mode == "bspline" else (3, 4, 3)))))
        for stride in ((1, 2) if tier == "quick" else (1, 2, 3)):
            obs.append((f"bspline-D{D}-stride{stride}", ob_bspline, dict(D=D, stride=stride, shape=(5, 6) if D == 2 else (5, 5, 6))))
    return obs
