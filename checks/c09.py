"""C09 - A transform evaluates its current parameters and grid, never a stale snapshot."""
from __future__ import annotations

import copy
import itertools

import torch

from vlib import geom

PROPERTY = "C09"
TECHNIQUE = 'enumeration of bounded operation histories; each history executed concolically on the real code with symbolic parameters / conditioning / points and decided by z3 against a freshly constructed transform'
EXPLANATION = (
    "Bounded symbolic execution + SMT over enumerated histories. For every stateful transformation class (dense displacement / velocity "
    "fields, free-form deformations, callable parameters, linked inverses, composites) every history of bounded length over {set data, in-place "
    "edit, grid_, condition_, reset, update, call, disp, inverse, link, unlink, clear_buffers} is executed through the real code with symbolic "
    "parameter values, conditioning inputs and points. After each step z3 decides that the transform's point map (and, after replacing or "
    "resetting operations, its dense displacement obtained without an intervening call) equals that of a freshly constructed transform of the "
    "same class holding the harness-tracked current grid, parameters and conditioning. Grid changes are checked to preserve the world-space "
    "deformation."
)
ASSUMPTIONS = [
    "the set of histories is enumerated (length 2 in quick, 3 in thorough); parameter values, conditioning inputs and points are symbolic",
    "concrete rational grids (interpolation weights are constants); claims restricted to the interpolation cells of the witness",
    "grid_ on dense fields resamples (lossy): the oracle is FlowFields.sample of the old field; for free-form deformations the displacement at the old grid points must be unchanged",
]
BOUNDS = {"quick": dict(history_length=2, classes=5, D=[2]), "thorough": dict(history_length=3, classes=6, D=[2, 3])}

OPS = ("set_data", "inplace", "reset", "update", "call", "disp", "clear_buffers", "inverse", "condition", "grid", "set_same", "grid_flip")


class Model:
    """Harness-side state of the transform under test: what a fresh transform would be built from."""

    def __init__(self, ctx, cls_name, D, held):
        import deepali.spatial as S

        self.ctx, self.cls_name, self.D, self.held = ctx, cls_name, D, held
        self.sizes = (4, 3) if D == 2 else (3, 3, 2)
        if "FreeForm" in cls_name:
            self.sizes = (5, 4) if D == 2 else (4, 3, 3)
        self.grid = geom.concrete_grid(D, ctx.seed, 0, align_corners=True, sizes=self.sizes)
        self.kw = dict(stride=2) if "FreeForm" in cls_name else {}
        if "Velocity" in cls_name:
            self.kw.update(steps=1)
        if "+stride2" in held:  # dense field stored on a coarser grid than the transform's own (u is an interpolated copy)
            held = held.split("+")[0]
            self.held = held
            self.kw.update(stride=2)
            if D == 2:
                self.sizes = (6, 4)
                self.grid = geom.concrete_grid(D, ctx.seed, 0, align_corners=True, sizes=self.sizes)
        self.cls = getattr(S, cls_name)
        self.cond = None
        self.counter = 0
        self.base = None
        if held == "callable":
            proto = self.cls(self.grid, params=False, **self.kw)
            self.base = self.sym(tuple(proto.data().shape), "b")
            self.cond = self.sym((1,), "a")
            self.t = self.cls(self.grid, params=lambda a: self.base + a, **self.kw)
            self.t.condition_(self.cond)
            self.P = self.base + self.cond
        else:
            self.t = self.cls(self.grid, params=(held == "param"), **self.kw)
            self.P = self.sym(tuple(self.t.data().shape), "p")
            self.t.to(self.P.dtype)
            self.t.data_(self.P.clone())
        self.t.update()

    def sym(self, shape, prefix):
        n = 1
        for m in shape:
            n *= m
        self.counter += 1
        name = f"{prefix}{self.counter}_"
        if prefix in ("d", "a"):  # edits / conditioning inputs: witness away from 0 so that the edit is visible at the witness
            wit = [((self.counter % 3) + 1) / 64 for _ in range(n)]
        else:
            wit = [(((5 * i + 3 * self.counter) % 13) - 6) / 128 for i in range(n)]
        return self.ctx.reals(name, wit, nice=(-0.125, 0.125)).reshape(shape)

    def fresh(self):
        f = self.cls(self.grid, params=False, **self.kw).to(self.P.dtype)
        f.data_(self.P.clone())
        f.update()
        return f

    def points(self):
        return self.grid.coords(align_corners=True).reshape(1, -1, self.D) * 0.75

    def step(self, op):
        ctx, t = self.ctx, self.t
        replacing = False
        if op == "set_data":
            if self.held == "callable":
                return False
            self.P = self.sym(tuple(self.P.shape), "p")
            t.data_(self.P.clone())
            replacing = True
        elif op == "set_same":
            if self.held == "callable":
                return False
            held = t.data()
            d = self.sym((1,), "d")
            with torch.no_grad():
                held.add_(d)
            self.P = self.P + d
            t.data_(held)  # same tensor object given again after an in-place edit
            replacing = True
        elif op == "inplace":
            if self.held == "callable":
                d = self.sym((1,), "d")
                with torch.no_grad():
                    self.base.add_(d)
                self.P = self.P + d
            else:
                d = self.sym((1,), "d")
                with torch.no_grad():
                    t.data().add_(d)
                self.P = self.P + d
        elif op == "reset":
            if self.held == "callable":
                return False
            t.reset_parameters()
            self.P = torch.zeros_like(self.P)
            replacing = True
        elif op == "update":
            t.update()
        elif op == "call":
            t(self.points())
        elif op == "disp":
            t.disp()
        elif op == "clear_buffers":
            t.clear_buffers()
        elif op == "inverse":
            if not hasattr(t, "exp"):
                inv = copy.copy(t)
            else:
                inv = t.inverse(link=False, update_buffers=True)
            inv.update()
            inv(self.points())
        elif op == "condition":
            if self.held != "callable":
                return False
            self.cond = self.sym((1,), "a")
            t.condition_(self.cond)
            self.P = self.base + self.cond
            replacing = True
        elif op == "grid":
            return self.change_grid()
        elif op == "grid_flip":
            return self.change_grid(flip=True)
        return replacing

    def change_grid(self, flip=False):
        """grid_ to a finer grid of the same domain; flip: the new grid uses the other align_corners convention."""
        from deepali.data.flow import FlowFields

        t, ctx = self.t, self.ctx
        if self.held == "callable":
            return False
        old_grid = self.grid
        buf = "v" if "Velocity" in self.cls_name else "u"  # the field the spline represents
        u_old = getattr(t.update(), buf).clone() if "FreeForm" in self.cls_name else None
        if "FreeForm" in self.cls_name:
            if flip:
                return False
            new_grid = old_grid.resize([2 * m - 1 for m in self.sizes])
        else:
            new_grid = old_grid.resize([m + 1 for m in self.sizes])
            if flip:
                new_grid = new_grid.align_corners(not old_grid.align_corners())
        if "FreeForm" not in self.cls_name:
            flow = FlowFields(self.P.clone(), grid=old_grid.reshape(self.P.shape[2:]), axes=t.axes())
            data_grid = t.data_grid(new_grid)
            expected = flow.sample(data_grid).axes(new_grid.axes()).tensor()
        t.grid_(new_grid)
        self.grid = new_grid
        self.sizes = tuple(new_grid.size())
        if "FreeForm" in self.cls_name:
            self.P = t.data().detach().clone() if ctx.mode != "sym" else t.data().clone()
            u_new = getattr(t.update(), buf)
            sl = (slice(None), slice(None)) + (slice(0, None, 2),) * self.D
            ctx.eq(u_new[sl], u_old, f"grid_(2n-1): {buf} field at the old grid points preserved")
        else:
            self.P = expected
            ctx.eq(t.data(), expected, "grid_(): parameters are the old field sampled on the new grid")
        return True


def ob_history(ctx, cls_name, D, held, history):
    ctx.witness_cells()
    m = Model(ctx, cls_name, D, held)
    x = m.points()
    ctx.reach()
    label = []
    for op in history:
        applicable = m.step(op)
        label.append(op)
        what = f"{cls_name}[{held}] after " + ",".join(label)
        if applicable is False and op in ("set_data", "set_same", "reset", "condition", "grid", "grid_flip"):
            continue
        f = m.fresh()
        if applicable:
            # replacing / resetting operation: dense displacement right away, without an intervening call
            ctx.eq(m.t.disp(), f.disp(), what + ": disp() reflects the new state")
        ctx.eq(m.t(m.points()), f(m.points()), what + ": call uses the current parameters, grid and conditioning")


def ob_linked(ctx, D, history):
    """Linked inverse of a linear transform with tensor-held parameters follows replacements / edits of the original."""
    import deepali.spatial as S

    g = geom.concrete_grid(D, ctx.seed, 0, sizes=(4, 3) if D == 2 else (3, 3, 2))
    p = ctx.reals("p", [[0.25, -0.5, 0.125][:D]], nice=(-2, 2))
    t = S.Translation(g, params=p.clone())
    inv = t.inverse(link=True)
    x = ctx.reals("x", [[0.5, -0.25, 0.75][:D]], nice=(-2, 2)).unsqueeze(0)
    P = p
    k = 0
    for op in history:
        k += 1
        if op == "set_data":
            P = ctx.reals(f"q{k}_", [[0.5, 0.25, -0.375][:D]], nice=(-2, 2))
            t.data_(P.clone())
        elif op == "inplace":
            d = ctx.reals(f"d{k}_", 0.125, nice=(-1, 1))
            with torch.no_grad():
                t.data().add_(d)
            P = P + d
        elif op == "call":
            t(x)
        elif op == "unlink_relink":
            inv = inv.unlink().link(t)
            inv.invert = True
        elif op == "copy":
            inv = copy.copy(inv)
        ctx.eq(inv(x), x - P, f"linked inverse after {op}: uses the current parameters of the original")
        ctx.eq(t(x), x + P, f"original after {op}")


def ob_sequential(ctx, D, history):
    """Composite of a linear and a dense member: members' state changes are picked up by the composite."""
    import deepali.spatial as S
    from checks.c06 import _nonrigid

    g = geom.concrete_grid(D, ctx.seed, 0, align_corners=True, sizes=(4, 3) if D == 2 else (3, 3, 2))
    ctx.witness_cells()
    p = ctx.reals("t", [[0.0625, -0.03125, 0.015625][:D]], nice=(-0.25, 0.25))
    a = S.Translation(g, params=p.clone())
    b = _nonrigid(ctx, "DisplacementFieldTransform", g, D)
    seq = S.SequentialTransform(a, b)
    seq.update()
    x = g.coords(align_corners=True).reshape(1, -1, D) * 0.5
    k = 0
    for op in history:
        k += 1
        if op == "set_data_a":
            q = ctx.reals(f"q{k}_", [[0.03125, 0.0625, -0.03125][:D]], nice=(-0.25, 0.25))
            a.data_(q.clone())
        elif op == "inplace_b":
            d = ctx.reals(f"d{k}_", 0.015625, nice=(-0.1, 0.1))
            with torch.no_grad():
                b.data().add_(d)
        elif op == "reset_b":
            b.reset_parameters()
        elif op == "call":
            seq(x)
        elif op == "disp":
            seq.disp()
        ref = b(a(x))
        ctx.eq(seq(x), ref, f"Sequential after {op}: uses the members' current state")


def ob_sequential_predicted(ctx, D, kind, history):
    """Composite whose LINEAR member takes its parameters from a callable (re-conditioned through the composite) or from a
    linked original: calling the composite as a whole must use the member's current parameters."""
    import deepali.spatial as S
    from checks.c06 import _nonrigid

    g = geom.concrete_grid(D, ctx.seed, 0, align_corners=True, sizes=(4, 3) if D == 2 else (3, 3, 2))
    ctx.witness_cells()
    base = ctx.reals("t", [[0.0625, -0.03125, 0.015625][:D]], nice=(-0.25, 0.25))
    b = _nonrigid(ctx, "DisplacementFieldTransform", g, D)
    x = g.coords(align_corners=True).reshape(1, -1, D) * 0.5
    if kind == "callable":
        a = S.Translation(g, params=lambda c: base + c)
        seq = S.SequentialTransform(a, b)
        c = ctx.reals("c0_", 0.03125, nice=(-0.1, 0.1))
        seq.condition_(c)
        cur = base + c
    else:
        orig = S.Translation(g, params=base.clone())
        a = orig.inverse(link=True)
        seq = S.SequentialTransform(a, b)
        cur = -base
    seq.update()
    k = 0
    for op in history:
        k += 1
        if op == "recondition" and kind == "callable":
            c = ctx.reals(f"c{k}_", 0.015625 * (k + 1), nice=(-0.1, 0.1))
            seq.condition_(c)
            cur = base + c
        elif op == "set_original" and kind == "linked":
            q = ctx.reals(f"q{k}_", [[0.03125, 0.0625, -0.03125][:D]], nice=(-0.25, 0.25))
            orig.data_(q.clone())
            cur = -q
        elif op == "inplace":
            d = ctx.reals(f"d{k}_", 0.015625, nice=(-0.1, 0.1))
            with torch.no_grad():
                (base if kind == "callable" else orig.data()).add_(d)
            cur = cur + d if kind == "callable" else cur - d
        elif op == "call":
            seq(x)
        elif op == "disp":
            seq.disp()
        y = seq(x)  # the composite is called as a whole, before any member is called on its own
        fresh = S.DisplacementFieldTransform(g, params=False)
        fresh.data_(b.data().clone())
        ctx.eq(y, fresh(x + cur.reshape(1, 1, D)), f"Sequential[{kind} linear member] after {op}: uses the member's current parameters")


def ob_generic(ctx, D, model, history):
    """GenericSpatialTransform with parameters predicted by a callable from the conditioning input."""
    import deepali.spatial as S
    from deepali.spatial import GenericSpatialTransform, TransformConfig

    g = geom.concrete_grid(D, ctx.seed, 0, align_corners=True, sizes=(4, 3) if D == 2 else (3, 3, 2))
    ctx.witness_cells()
    cfg = TransformConfig(transform=model, affine_model="TS", scaling_and_squaring_steps=1)
    nr = model.split(" o ")[-1] if model.split(" o ")[-1] != "Affine" else model.split(" o ")[0]
    shape = (1, D) + tuple(g.shape)
    n = 1
    for m_ in shape:
        n *= m_
    base = ctx.reals("b", [(((5 * i) % 13) - 6) / 128 for i in range(n)], nice=(-0.125, 0.125)).reshape(shape)
    off = ctx.reals("o", [[0.0625, -0.03125, 0.015625][:D]], nice=(-0.25, 0.25))
    state = {}

    def predict(a):
        return {"translation": off * a, "scaling": 1 + a * 0.5 + torch.zeros(1, D, dtype=off.dtype), "nonrigid": base + a * 0.25}

    t = GenericSpatialTransform(g, params=predict, config=cfg)
    a = ctx.reals("a0_", 0.25, ge=0.0625, le=0.5, nice=(0.0625, 0.5))
    t.condition_(a)
    t.update()
    x = g.coords(align_corners=True).reshape(1, -1, D) * 0.5
    k = 0
    for op in history:
        k += 1
        replacing = False
        if op == "condition":
            a = ctx.reals(f"a{k}_", 0.125 * k, ge=0.0625, le=0.5, nice=(0.0625, 0.5))
            t.condition_(a)
            replacing = True
        elif op == "inplace":
            d = ctx.reals(f"d{k}_", 0.015625, nice=(-0.1, 0.1))
            with torch.no_grad():
                base.add_(d)
        elif op == "call":
            t(x)
        elif op == "disp":
            t.disp()
        elif op == "update":
            t.update()
        pred = predict(a)
        members = dict(translation=S.Translation(g, params=pred["translation"].clone()), scaling=S.AnisotropicScaling(g, params=pred["scaling"].clone()))
        nonrigid = S.DisplacementFieldTransform(g, params=False) if nr == "DDF" else S.StationaryVelocityFieldTransform(g, params=False, steps=1)
        nonrigid.data_(pred["nonrigid"].clone())
        nonrigid.update()
        y = x
        for name, _ in t.named_transforms():
            y = nonrigid(y) if name == "nonrigid" else members[name](y)
        ctx.eq(t(x), y, f"Generic[{model}] after {op}: call composes the members with the currently predicted parameters")
        if replacing:
            fresh = GenericSpatialTransform(g, params=predict, config=cfg)
            fresh.condition_(a)
            ctx.eq(t.disp(), fresh.update().disp(), f"Generic[{model}] after {op}: disp() reflects the new conditioning")


def obligations(tier: str, seed: int):
    obs = []
    classes = [("DisplacementFieldTransform", "tensor"), ("DisplacementFieldTransform", "param"), ("StationaryVelocityFieldTransform", "tensor"), ("FreeFormDeformation", "tensor"),
               ("StationaryVelocityFreeFormDeformation", "param"), ("DisplacementFieldTransform", "callable"),
               ("DisplacementFieldTransform", "param+stride2"), ("StationaryVelocityFieldTransform", "tensor+stride2")]
    L = 2 if tier == "quick" else 3
    for D in ((2,) if tier == "quick" else (2, 3)):
        for cls_name, held in classes:
            ops = [o for o in OPS if not ((held == "callable" or "stride2" in held) and o in ("grid", "grid_flip")) and not (held == "callable" and o in ("set_data", "set_same", "reset")) and not (held != "callable" and o == "condition") and not ("FreeForm" in cls_name and o == "grid_flip")]
            if tier == "thorough" and L == 3:
                ops3 = [o for o in ops if o in ("set_data", "inplace", "call", "disp", "grid", "set_same", "reset", "condition", "inverse")]
                hs = list(itertools.product(ops3, repeat=3)) if D == 2 else list(itertools.product(ops3[:5], repeat=2))
            else:
                hs = list(itertools.product(ops, repeat=2))
            for h in hs:
                if h.count("grid") + h.count("grid_flip") > 1:
                    continue
                obs.append((f"history-{cls_name}-{held}-D{D}-" + "+".join(h), ob_history, dict(cls_name=cls_name, D=D, held=held, history=list(h))))
        for h in itertools.product(("set_data", "inplace", "call", "unlink_relink", "copy"), repeat=2):
            obs.append((f"linked-D{D}-" + "+".join(h), ob_linked, dict(D=D, history=list(h))))
        for h in itertools.product(("set_data_a", "inplace_b", "reset_b", "call", "disp"), repeat=2):
            obs.append((f"sequential-D{D}-" + "+".join(h), ob_sequential, dict(D=D, history=list(h))))
        for kind, ops_ in (("callable", ("recondition", "inplace", "call", "disp")), ("linked", ("set_original", "inplace", "call", "disp"))):
            for h in itertools.product(ops_, repeat=2):
                obs.append((f"sequential-{kind}-D{D}-" + "+".join(h), ob_sequential_predicted, dict(D=D, kind=kind, history=list(h))))
        for model in ("Affine o DDF", "SVF o Affine"):
            for h in itertools.product(("condition", "inplace", "call", "disp", "update"), repeat=2):
                obs.append((f"generic-{model.replace(' ', '')}-D{D}-" + "+".join(h), ob_generic, dict(D=D, model=model, history=list(h))))
    return obs
