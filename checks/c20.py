"""C20 - Gradients reaching parameters and inputs are the true derivatives."""
from __future__ import annotations

import torch

from vlib import geom
from checks.c06 import _classes, _make_linear

PROPERTY = "C20"
TECHNIQUE = 'concolic execution of forward AND backward passes (autograd inside the TorchDispatchMode engine); z3 / polynomial normalisation decides backward term == symbolic derivative of the forward term for all generic values; replay: autograd vs central finite differences on the real code'
EXPLANATION = (
    "Bounded symbolic execution + SMT of forward AND backward passes. Each differentiable operation is run through the real code with symbolic "
    "inputs / parameters (leaves requiring grad); the scalarised output's term is differentiated symbolically (terms.diff), torch.autograd.grad "
    "is then executed through the same engine so that every backward ATen operation contributes its transfer function (checked against the real "
    "backward kernel at the witness), and z3 decides that each element of the gradient autograd returns equals the partial derivative of the "
    "forward term for all admissible values within the witness' interpolation cells, and that no denominator vanishes (finite gradients). A "
    "rounding / integer cast on the path gives an undetermined (poison) derivative and is reported. Counterexamples are replayed on the real "
    "code: autograd vs. central finite differences (float32 with h=1e-2, then float64 with h=1e-5)."
)
ASSUMPTIONS = [
    "generic inputs: claims are for values inside the interpolation cells / branch sides of the witness and those explored by path flipping (kinks excluded, as in the property)",
    "torch's own backward kernels are the environment: each is modelled by a transfer function that is compared with the real kernel's output at the witness on every call",
    "round_decimals(x, k>=6) is stubbed in symbolic runs as value-identity with zero gradient (what rounding does to autograd); replays use the real function",
    "outputs are scalarised with fixed concrete weights plus a quadratic term so that every output element and its value matter",
    "small grids (<= 5 per axis), D in {2,3}; scaling-and-squaring steps <= 2",
]
BOUNDS = {"quick": dict(D=[2], sizes="3..5", steps=[1, 2]), "thorough": dict(D=[2, 3], sizes="3..5", steps=[1, 2])}


def _scalar(y, quad=True):
    n = y.numel()
    w = (((torch.arange(n) * 7 + 3) % 11) - 5).to(y.dtype).div(8).reshape(y.shape)
    s = (y * w).sum()
    if quad:
        s = s + 0.5 * (y * y).sum()
    return s


class Scal:
    """Scalarisation sum_i s_i * y_i with *symbolic* weights s (so that the whole backward pass stays symbolic and the claim
    covers every linear functional of the output), optionally plus 0.5 * |y|^2."""

    def __init__(self, ctx, quad=False, name="s"):
        self.ctx, self.quad, self.name, self.s = ctx, quad, name, None

    def __call__(self, y):
        n = y.numel()
        if self.s is None:
            self.s = self.ctx.reals(self.name, [((((i * 7 + 3) % 11) - 5) or 6) / 8 for i in range(n)], nice=(-1, 1))
        r = (y.reshape(-1) * self.s.to(y.dtype)).sum()
        if self.quad:
            r = r + 0.5 * (y * y).sum()
        return r


def _vals(ctx, name, shape, scale=1 / 16, nice=(-0.25, 0.25), off=0):
    n = 1
    for m in shape:
        n *= m
    return ctx.reals(name, [(((((5 * i + off) % 13) - 6) or 7) + (i % 19) / 23) * scale / 6 for i in range(n)], nice=nice).reshape(shape)  # witness away from kinks (no exact zeros)


def _embed(ctx, name, shape, k, scale=3.0, nice=(-4, 4), off=0, positive=False):
    """A tensor of `shape` with k symbolic entries (evenly spread) and the remaining entries fixed at concrete values:
    returns (leaf of the k symbolic entries, build(leaf) -> full tensor). Keeps rational-function gradients decidable."""
    n = 1
    for m in shape:
        n *= m
    if positive:
        wit = [0.1 + (((5 * i + off) % 9) + (i % 7) / 11) / 11 for i in range(n)]
    else:
        wit = [(((((5 * i + off) % 13) - 6) or 7) + (i % 19) / 23) * scale / 6 for i in range(n)]
    idx = sorted({(j * (n - 1)) // max(k - 1, 1) for j in range(k)}) if k > 1 else [n // 2]
    kw = dict(gt=0.0, lt=1.0, nice=(0.05, 0.95)) if positive else dict(nice=nice)
    leaf = ctx.reals(name, [wit[j] for j in idx], **kw)
    base = torch.tensor(wit, dtype=torch.float64)
    it = torch.tensor(idx)

    def build(v):
        return base.to(v.dtype).index_put((it,), v).reshape(shape)

    return leaf, build


def _setter(params):
    def set_(vals):
        with torch.no_grad():
            for p, v in zip(params, vals):
                if p is not v:
                    p.copy_(v)

    return set_


# ---------------------------------------------------------------------------------------------- transforms
def ob_linear(ctx, name, D, what):
    """Linear transform classes: forward / inverse / points() into another grid, w.r.t. parameters and points."""
    from deepali.core.grid import Axes
    from checks.c07 import _precondition

    ctx.round_detach = True
    g = geom.concrete_grid(D, ctx.seed, 0, sizes=(4, 3) if D == 2 else (3, 3, 2))
    g2 = geom.concrete_grid(D, ctx.seed, 1, sizes=(5, 4) if D == 2 else (3, 4, 3))
    t = _make_linear(ctx, name, g, D, held="param")
    params = list(t.parameters())
    _precondition(ctx, t, name, D)
    x = ctx.reals("x", [[[0.5, -0.25, 0.125][:D], [0.125, 0.375, -0.5][:D]]], nice=(-1, 1))
    set_ = _setter(params)
    scal = Scal(ctx, quad=len(params) == 1 and what != "points-grid")  # composites: linear scalarisation keeps the trig polynomials small

    def f(*vals):
        set_(vals[:-1])
        xx = vals[-1]
        if what == "forward":
            y = t(xx)
        elif what == "inverse":
            y = t.inverse()(xx)
        elif what == "points-grid":
            y = t.points(xx, to_grid=g2)
        elif what == "points-voxel":
            y = t.points(xx, axes=Axes.WORLD, to_axes=Axes.GRID, to_grid=g2)
        elif what == "tensor":
            y = t.tensor()
            return _scalar(y) + xx.sum(), params + [xx]
        return scal(y), params + [xx]

    ctx.grad(f, params + [x], f"{name}.{what}: autograd == derivative w.r.t. parameters and points")


def ob_nonrigid(ctx, name, D, what, steps=1, stride=None, resize=True):
    import deepali.spatial as S

    ctx.round_detach = True
    ctx.witness_cells()
    sizes = (4, 3) if D == 2 else (3, 3, 2)
    if "FreeForm" in name:
        sizes = (5, 4) if D == 2 else (3, 3, 3)
    g = geom.concrete_grid(D, ctx.seed, 0, align_corners=True, sizes=sizes)
    g2 = geom.concrete_grid(D, ctx.seed, 1, sizes=(4, 4) if D == 2 else (3, 3, 3))
    kw = dict(stride=2) if "FreeForm" in name else {}
    if what == "disp-other-grid":
        # the other grid is centred on the transform's grid so that the two domains overlap whatever the seed
        # (on disjoint domains the resampled field is the padding value and every derivative vanishes: a vacuous pass)
        g2 = g2.center(g.center())
    if "Velocity" in name:
        kw.update(steps=steps)
    if stride is not None:  # dense field stored on a coarser grid than the transform's own
        kw.update(stride=stride, resize=resize)
        if D == 2:
            g = geom.concrete_grid(D, ctx.seed, 0, align_corners=True, sizes=(6, 4))
    t = getattr(S, name)(g, params=True, **kw)
    p0 = _vals(ctx, "p", tuple(t.params.shape))
    with torch.no_grad():
        t.params.copy_(p0)
    params = [t.params]
    x = ctx.reals("x", [[[0.3125, -0.21875, 0.15625][:D], [-0.40625, 0.28125, -0.34375][:D]]], nice=(-0.75, 0.75))
    set_ = _setter(params)
    scal = Scal(ctx)

    def f(p, xx):
        set_([p])
        if what == "forward":
            y = t(xx)
        elif what == "inverse":
            y = t.inverse()(xx)
        elif what == "disp":
            y = t.update().disp()
            return scal(y) + xx.sum(), params + [xx]
        elif what == "disp-other-grid":
            y = t.update().disp(g2)
            return scal(y) + xx.sum(), params + [xx]
        elif what == "points-grid":
            y = t.points(xx, to_grid=g2)
        return scal(y), params + [xx]

    ctx.grad(f, [t.params, x], f"{name}.{what}: autograd == derivative w.r.t. parameters and points")


def ob_image_transformer(ctx, name, D, padding):
    """ImageTransformer: warped image w.r.t. transform parameters and source image."""
    import deepali.spatial as S

    ctx.round_detach = True
    ctx.witness_cells()
    g = geom.concrete_grid(D, ctx.seed, 0, sizes=(4, 3) if D == 2 else (3, 3, 2))
    src = geom.concrete_grid(D, ctx.seed, 1, sizes=(4, 4) if D == 2 else (3, 3, 3))
    if name in ("DisplacementFieldTransform", "FreeFormDeformation"):
        kw = dict(stride=2) if "FreeForm" in name else {}
        t = getattr(S, name)(g, params=True, **kw)
        p0 = _vals(ctx, "p", tuple(t.params.shape))
        with torch.no_grad():
            t.params.copy_(p0)
    else:
        t = _make_linear(ctx, name, g, D, held="param")
    params = list(t.parameters())
    img = _vals(ctx, "i", (1, 1) + tuple(src.shape), scale=3, nice=(-4, 4))
    set_ = _setter(params)
    warp = S.ImageTransformer(t, target=g, source=src, sampling="linear", padding=padding)
    scal = Scal(ctx)

    def f(*vals):
        set_(vals[:-1])
        return scal(warp(vals[-1])), params + [vals[-1]]

    ctx.grad(f, params + [img], f"ImageTransformer({name}, padding={padding}): autograd == derivative w.r.t. parameters and image", twice=True)


# ---------------------------------------------------------------------------------------------- sampling
def ob_grid_sample(ctx, D, fn, padding, mode="linear"):
    import deepali.core.functional as U
    from deepali.core.flow import warp_image
    from deepali.modules import SampleImage

    ctx.round_detach = True
    ctx.witness_cells()
    shape = (3, 4) if D == 2 else (3, 3, 3)
    out_shape = (2, 3) if D == 2 else (2, 2, 2)
    g = geom.concrete_grid(D, ctx.seed, 0, sizes=shape[::-1])
    tgt = geom.concrete_grid(D, ctx.seed, 1, sizes=out_shape[::-1])
    data = _vals(ctx, "i", (1, 2) + shape, scale=3, nice=(-4, 4))
    n = D
    for m in out_shape:
        n *= m
    c = ctx.reals("c", [(((7 * i) % 13) - 6) * 0.9 / 6 + 0.03 for i in range(n)], gt=-0.97, lt=0.97, nice=(-0.97, 0.97)).reshape((1,) + out_shape + (D,))

    def f(d, cc):
        if fn == "grid_sample":
            y = U.grid_sample(d, cc, mode=mode, padding=padding, align_corners=True)
        elif fn == "sample_image":
            y = U.sample_image(d, cc.reshape(1, -1, D), mode=mode, padding=padding, align_corners=False)
        elif fn == "warp_image":
            base = tgt.coords(align_corners=True).unsqueeze(0)
            y = warp_image(d, base, flow=cc * 0.25, mode=mode, padding=padding, align_corners=True)
        elif fn == "SampleImage":
            y = SampleImage(tgt, g, sampling=mode, padding=padding)(cc, d)
        return _scalar(y)

    ctx.grad(f, [data, c], f"{fn}(mode={mode}, padding={padding}): autograd == derivative w.r.t. image and coordinates", twice=True)


# ---------------------------------------------------------------------------------------------- flows
def ob_flow(ctx, D, fn, steps=1):
    import deepali.core.functional as U
    import deepali.core.flow as F_

    ctx.round_detach = True
    ctx.witness_cells()
    shape = (3, 4) if D == 2 else (3, 3, 3)
    u = _vals(ctx, "u", (1, D) + shape)
    v = _vals(ctx, "v", (1, D) + shape, off=4)
    scal = Scal(ctx)

    def f(a, b):
        if fn == "expv":
            y = U.expv(a, steps=steps, align_corners=True) + 0 * b.sum()
        elif fn == "expv-scale":
            y = U.expv(a, scale=-0.5, steps=steps, align_corners=False) + 0 * b.sum()
        elif fn == "compose_flows":
            y = U.compose_flows(a, b, align_corners=True)
        elif fn == "compose_svfs":
            y = U.compose_svfs(a, b, bch_terms=steps, spacing=None)
        elif fn == "lie_bracket":
            y = F_.lie_bracket(a, b)
        elif fn == "warp_grid":
            grid = geom.concrete_grid(D, ctx.seed, 0, sizes=shape[::-1]).coords(align_corners=True).unsqueeze(0)
            y = U.warp_grid(a, grid, align_corners=True) + 0 * b.sum()
        elif fn == "warp_points":
            pts = b.movedim(1, -1).reshape(1, -1, D) * 2
            y = U.warp_points(a, pts, align_corners=True)
        elif fn == "sample_flow":
            pts = b.movedim(1, -1).reshape(1, -1, D) * 2
            y = F_.sample_flow(a, pts, align_corners=True)
        elif fn == "jacobian_det":
            y = U.jacobian_det(a, add_identity=True) + 0 * b.sum()
        elif fn == "divergence":
            y = U.divergence(a) + 0 * b.sum()
        elif fn == "curl":
            y = U.curl(a) + 0 * b.sum()
        elif fn == "normalize_flow":
            y = U.denormalize_flow(U.normalize_flow(a, align_corners=False), size=shape[::-1], align_corners=True) + 0 * b.sum()
        elif fn == "affine_flow":
            m = a.reshape(-1)[: D * (D + 1)].reshape(1, D, D + 1)
            grid = geom.concrete_grid(D, ctx.seed, 0, sizes=shape[::-1])
            y = F_.affine_flow(m, grid) + 0 * (a.sum() + b.sum())
        return scal(y)

    ctx.grad(f, [u, v], f"{fn}(steps/terms={steps}): autograd == derivative")


def ob_derivatives(ctx, D, mode, which):
    import deepali.core.functional as U

    shape = (4, 4) if D == 2 else ((4, 4, 4) if mode == "bspline" else (3, 3, 3))  # cubic B-spline kernels need 4 samples per axis
    u = _vals(ctx, "u", (1, 2) + shape, scale=3, nice=(-4, 4))
    sigma = 0.7 if mode == "gaussian" else None

    def f(a):
        kw = dict(mode=mode, which=which, spacing=(0.5, 2.0, 1.5)[:D])
        if sigma:
            kw["sigma"] = sigma
        d = U.spatial_derivatives(a, **kw)
        return sum(_scalar(d[k]) * (i + 1) for i, k in enumerate(sorted(d)))

    ctx.grad(f, [u], f"spatial_derivatives(mode={mode}, which={which}): autograd == derivative")


def ob_bspline(ctx, D, stride, derivative):
    import deepali.core.functional as U

    shape = (5, 4) if D == 2 else (4, 4, 4)
    c = _vals(ctx, "c", (1, 2) + shape, scale=3, nice=(-4, 4))

    def f(a):
        return _scalar(U.evaluate_cubic_bspline(a, stride=stride, derivative=derivative))

    ctx.grad(f, [c], f"evaluate_cubic_bspline(stride={stride}, derivative={derivative}): autograd == derivative")


def ob_rotation(ctx, which):
    """core/affine.py, core/linalg.py, core/_kornia.py rotation re-parameterisations."""
    import deepali.core.affine as A
    import deepali.core.linalg as LA

    if which.startswith("euler"):
        order = which.split("-")[1]
        a = ctx.reals("a", [[0.5, -0.25, 0.75]], nice=(-1.4, 1.4), gt=-1.5, lt=1.5)

        def f(x):
            return _scalar(A.euler_rotation_matrix(x, order=order))

        ctx.grad(f, [a], f"euler_rotation_matrix(order={order}): autograd == derivative")
    elif which == "quaternion":
        q = ctx.reals("q", [[1.0, 0.25, -0.5, 0.125]], nice=(-2, 2))
        ctx.assume_cmp((q * q).sum(), ">=", 0.25)

        def f(x):
            return _scalar(LA.quaternion_to_rotation_matrix(x))

        ctx.grad(f, [q], "quaternion_to_rotation_matrix: autograd == derivative")
    elif which == "hmm":
        a = ctx.reals("a", [[[1.0, 0.25, 0.5], [-0.125, 0.75, -0.25]]], nice=(-2, 2))
        b = ctx.reals("b", [[[0.5, -0.25, 0.125], [0.375, 1.25, 0.625]]], nice=(-2, 2))

        def f(x, y):
            return _scalar(LA.homogeneous_matmul(x, y))

        ctx.grad(f, [a, b], "homogeneous_matmul: autograd == derivative")
    elif which == "htransform":
        a = ctx.reals("a", [[[1.0, 0.25, 0.5], [-0.125, 0.75, -0.25]]], nice=(-2, 2))
        x = ctx.reals("x", [[[0.5, -0.25], [0.125, 0.375]]], nice=(-2, 2))

        def f(m, p):
            return _scalar(LA.homogeneous_transform(m, p))

        ctx.grad(f, [a, x], "homogeneous_transform: autograd == derivative")
    elif which == "grid-points":
        from deepali.core.grid import Axes

        g = geom.concrete_grid(2, ctx.seed, 0, sizes=(4, 3))
        g2 = geom.concrete_grid(2, ctx.seed, 1, sizes=(5, 4))
        x = ctx.reals("x", [[[0.5, -0.25], [0.125, 0.375]]], nice=(-2, 2))
        ctx.round_detach = True

        def f(p):
            y1 = g.transform_points(p, axes=Axes.CUBE, to_axes=Axes.GRID, to_grid=g2, decimals=None)
            y2 = g.transform_points(p, axes=Axes.WORLD, to_axes=Axes.CUBE_CORNERS, decimals=None)
            y3 = g.cube_to_world(p) if hasattr(g, "cube_to_world") else p
            return _scalar(y1) + 2 * _scalar(y2) + 3 * _scalar(y3)

        ctx.grad(f, [x], "Grid.transform_points(decimals=None), cube_to_world: autograd == derivative")


# ---------------------------------------------------------------------------------------------- losses
PAIRWISE = ("mse_loss", "ssd_loss", "mae_loss", "l1_loss", "huber_loss", "smooth_l1_loss", "ncc_loss", "lcc_loss", "wlcc_loss")
REGULARISERS = ("grad_loss", "bending_loss", "curvature_loss", "diffusion_loss", "divergence_loss", "elasticity_loss", "total_variation_loss")


def ob_pairwise(ctx, name, D, masked=False, full=False):
    import deepali.losses.functional as L

    shape = (1, 1) + ((4, 4) if D == 2 else (3, 3, 3))
    if name in ("lcc_loss", "wlcc_loss"):
        shape = (1, 1) + ((5, 5) if D == 2 else (3, 3, 3))
    n = 1
    for m in shape:
        n *= m
    heavy = name in ("ncc_loss", "lcc_loss", "wlcc_loss") and not full
    if heavy:
        # rational functions of all voxels: gradient w.r.t. 3 + 2 voxels, the others fixed (stated bound)
        a, build_a = _embed(ctx, "a", shape, 3 if ctx.tier == "quick" else 5)
        b, build_b = _embed(ctx, "b", shape, 2 if ctx.tier == "quick" else 4, scale=2.5, off=5)
    else:
        a = _vals(ctx, "a", shape, scale=3, nice=(-4, 4))
        b = _vals(ctx, "b", shape, scale=2.5, nice=(-4, 4), off=5)
        build_a = build_b = lambda v: v
    mask = torch.tensor([1.0 if (i * 7) % 3 else 0.0 for i in range(n)]).reshape(shape) if masked else None
    kw = {}
    if name in ("lcc_loss", "wlcc_loss"):
        kw["kernel_size"] = 3

    def f(x, y):
        x, y = build_a(x), build_b(y)
        return getattr(L, name)(x, y, mask=mask, **kw) if masked else getattr(L, name)(x, y, **kw)

    ctx.grad(f, [a, b], f"{name}(masked={masked}): autograd == derivative w.r.t. both images" + (" (selected voxels, others fixed)" if heavy else ""))


def ob_overlap(ctx, name, D):
    import deepali.losses.functional as L

    shape = (1, 2) + ((3, 3) if D == 2 else (2, 2, 2))
    n = 1
    for m in shape:
        n *= m
    if name in ("tversky_loss_with_logits", "dice_loss", "dice_score", "tversky_loss", "tversky_index"):
        p, build = _embed(ctx, "a", shape, 3 if ctx.tier == "quick" else 5, positive=True)
    else:
        p = ctx.reals("a", [0.1 + ((5 * i) % 9) / 10 for i in range(n)], gt=0.0, lt=1.0, nice=(0.05, 0.95)).reshape(shape)
        build = lambda v: v
    y = torch.tensor([float((i * 5) % 3 == 0) for i in range(n)]).reshape(shape)

    def f(x):
        x = build(x)
        if name == "dice_loss":
            return L.dice_loss(x, y)
        if name == "dice_score":
            return L.dice_score(x, y).sum()
        if name == "tversky_loss":
            return L.tversky_loss(x, y, alpha=0.3, beta=0.7)
        if name == "tversky_index":
            return L.tversky_index(x, y, alpha=0.3, beta=0.7).sum()
        if name == "tversky_loss_with_logits":
            return L.tversky_loss_with_logits(x * 4 - 2, y, alpha=0.3, beta=0.7)
        if name == "focal_loss_with_logits":
            return L.focal_loss_with_logits(x * 4 - 2, y)
        if name == "bbce":
            return L.balanced_binary_cross_entropy_with_logits(x[:, :1] * 4 - 2, y[:, :1]) + 0 * x.sum()
        if name == "kld_loss":
            return L.kld_loss(x, x * x - 0.5)
        if name == "label_smoothing":
            return _scalar(L.label_smoothing(x, num_classes=2, alpha=0.1) if True else x)
        raise ValueError(name)

    ctx.grad(f, [p], f"{name}: autograd == derivative w.r.t. prediction")


def ob_regulariser(ctx, name, D):
    import deepali.losses.functional as L

    shape = (4, 4) if D == 2 else (3, 3, 3)
    u = _vals(ctx, "u", (1, D) + shape, scale=1.5, nice=(-2, 2))

    kw = dict(first_parameter=1.5, second_parameter=0.75) if name == "elasticity_loss" else {}

    def f(x):
        return getattr(L, name)(x, **kw)

    ctx.grad(f, [u], f"{name}: autograd == derivative w.r.t. the field")


def ob_bspline_bending(ctx, D, stride):
    import deepali.losses.functional as L

    shape = (5, 4) if D == 2 else (4, 4, 4)
    c = _vals(ctx, "c", (1, D) + shape, scale=1.5, nice=(-2, 2))

    def f(x):
        return L.bspline_bending_loss(x, stride=stride)

    ctx.grad(f, [c], f"bspline_bending_loss(stride={stride}): autograd == derivative")


def ob_inverse_consistency(ctx, D):
    import deepali.losses.functional as L

    ctx.witness_cells()
    shape = (3, 4) if D == 2 else (3, 3, 3)
    u = _vals(ctx, "u", (1, D) + shape)
    v = _vals(ctx, "v", (1, D) + shape, off=4)
    g = geom.concrete_grid(D, ctx.seed, 0, sizes=shape[::-1])

    def f(a, b):
        return L.inverse_consistency_loss(a, b, grid=g)

    ctx.grad(f, [u, v], "inverse_consistency_loss: autograd == derivative w.r.t. both fields")


def ob_mi(ctx, normalized):
    import deepali.losses.functional as L

    shape = (1, 1, 2, 3)
    a, build_a = _embed(ctx, "a", shape, 1, positive=True)
    b, build_b = _embed(ctx, "b", shape, 1, positive=True, off=3)

    def f(x, y):
        return L.mi_loss(build_a(x), build_b(y), vmin=0.0, vmax=1.0, num_bins=2, num_samples=None, normalized=normalized)

    ctx.grad(f, [a, b], f"mi_loss(normalized={normalized}): autograd == derivative (one voxel of each image, others fixed)")


def obligations(tier: str, seed: int):
    obs = []
    Ds = (2,) if tier == "quick" else (2, 3)
    for D in Ds:
        for name in _classes(D):
            for what in ("forward", "inverse", "points-grid") + (("points-voxel", "tensor") if tier == "thorough" else ()):
                obs.append((f"linear-{name}-{what}-D{D}", ob_linear, dict(name=name, D=D, what=what)))
        for name in ("DisplacementFieldTransform", "StationaryVelocityFieldTransform", "FreeFormDeformation", "StationaryVelocityFreeFormDeformation"):
            whats = ["forward", "disp", "points-grid", "disp-other-grid"] + (["inverse"] if "Velocity" in name else [])
            for what in whats:
                obs.append((f"nonrigid-{name}-{what}-D{D}", ob_nonrigid, dict(name=name, D=D, what=what)))
            if "Velocity" in name and "FreeForm" not in name:
                obs.append((f"nonrigid-{name}-forward-steps2-D{D}", ob_nonrigid, dict(name=name, D=D, what="forward", steps=2)))
            if "FreeForm" not in name:
                for resize in (True, False):
                    for what in ("forward", "disp"):
                        obs.append((f"nonrigid-{name}-{what}-stride2-resize{int(resize)}-D{D}", ob_nonrigid, dict(name=name, D=D, what=what, stride=2, resize=resize)))
        for name in ("Translation", "RigidTransform", "AffineTransform", "DisplacementFieldTransform", "FreeFormDeformation"):
            for padding in ("zeros", "border", 0.5):
                obs.append((f"image-transformer-{name}-{padding}-D{D}", ob_image_transformer, dict(name=name, D=D, padding=padding)))
        for fn in ("grid_sample", "sample_image", "warp_image", "SampleImage"):
            for padding in ("zeros", "border", 0.5):
                obs.append((f"sample-{fn}-{padding}-D{D}", ob_grid_sample, dict(D=D, fn=fn, padding=padding)))
        for fn in ("expv", "expv-scale", "compose_flows", "compose_svfs", "lie_bracket", "warp_grid", "warp_points", "sample_flow", "jacobian_det", "divergence", "normalize_flow", "affine_flow") + (("curl",) if D == 3 else ()):
            obs.append((f"flow-{fn}-D{D}", ob_flow, dict(D=D, fn=fn)))
        for fn in ("expv", "compose_svfs"):
            obs.append((f"flow-{fn}-2-D{D}", ob_flow, dict(D=D, fn=fn, steps=2)))
        for mode in ("central", "forward_central_backward", "bspline", "gaussian"):
            for which in (["x", "y"], ["xx", "xy"]):
                obs.append((f"derivatives-{mode}-{'+'.join(which)}-D{D}", ob_derivatives, dict(D=D, mode=mode, which=which)))
        for stride in (1, 2):
            for derivative in (0, 1):
                obs.append((f"bspline-s{stride}-d{derivative}-D{D}", ob_bspline, dict(D=D, stride=stride, derivative=derivative)))
        # (all voxels symbolic at once was tried for ncc/lcc/wlcc: no verdict within 25 min - outside the claim)
        for name in PAIRWISE:
            for masked in (False, True):
                if masked and name == "ncc_loss":
                    continue  # ncc_loss rejects every documented mask shape: the recorded C16 known finding
                obs.append((f"loss-{name}-m{int(masked)}-D{D}", ob_pairwise, dict(name=name, D=D, masked=masked)))
        for name in ("dice_loss", "dice_score", "tversky_loss", "tversky_index", "tversky_loss_with_logits", "focal_loss_with_logits", "bbce", "kld_loss", "label_smoothing"):
            obs.append((f"loss-{name}-D{D}", ob_overlap, dict(name=name, D=D)))
        for name in REGULARISERS:
            obs.append((f"regulariser-{name}-D{D}", ob_regulariser, dict(name=name, D=D)))
        for stride in (1, 2):
            obs.append((f"regulariser-bspline-bending-s{stride}-D{D}", ob_bspline_bending, dict(D=D, stride=stride)))
        obs.append((f"loss-inverse-consistency-D{D}", ob_inverse_consistency, dict(D=D)))
    for which in ("euler-ZXZ", "euler-XYZ", "quaternion", "hmm", "htransform", "grid-points"):
        obs.append((f"rotation-{which}", ob_rotation, dict(which=which)))
    for normalized in (False, True):
        obs.append((f"loss-mi-n{int(normalized)}", ob_mi, dict(normalized=normalized)))
    return obs
