"""C19 - Batches keep one correctly aligned grid per image under tensor operations."""
from __future__ import annotations

import copy
import pickle

import numpy as np
import torch

from vlib.geom import sym_grid

PROPERTY = "C19"
TECHNIQUE = 'enumeration of a catalogue of tensor programs executed concolically on three images with distinct symbolic grids and symbolic voxels; which input item each result entry depends on is read off the free variables of its symbolic terms (a sound syntactic over-approximation of dependence: a non-interference query on such terms is trivially unsat), which grid it carries off the symbolic variables of the grid; mismatches are replayed by perturbing one item at a time; shape / type rules and mixed-axes obligations go through z3'
NONTRIVIAL_FROM = "dependency_analyses"
NONTRIVIAL_RULE = "For this property the deciding comparisons are between dependency sets: dependency_analyses counts the result entries whose set of contributing input items was computed from the free variables of their symbolic terms (one per result entry per program); these are added to distinct_nontrivial."
EXPLANATION = (
    "Bounded symbolic execution + SMT over an enumerated catalogue of torch programs. Batches of three images (and flow fields) with three "
    "distinct symbolic grids and free symbolic voxels are pushed through each program via the real __torch_function__ / __getitem__ / "
    "__iter__ code. Type rule: a result that is still an image type carries one grid per entry with the spatial shape of the data, otherwise it "
    "must be a plain Tensor. Alignment: the variables occurring in the terms of result entry j identify the input item k whose data it holds "
    "(a term that does not mention an item's voxels cannot depend on them; dependence on item k is confirmed by a satisfiability query), and "
    "the grid (and axes) attached to entry j must be the grid of item k."
)
ASSUMPTIONS = [
    "the space of programs is enumerated (catalogue below, length 1 in quick, 2 in thorough); the space of voxel values and grid geometries is symbolic",
    "pickling crosses a C boundary: type, grids, axes are checked symbolically, voxel data numerically at the witness",
]
BOUNDS = {"quick": dict(N=3, D=[2, 3], program_length=1), "thorough": dict(N=3, D=[2, 3], program_length=2)}


def _batch(ctx, D, kind="image", C=None):
    from deepali.data.image import ImageBatch
    from deepali.data.flow import FlowFields

    sizes = [3, 2, 2][:D]
    shape = tuple(reversed(sizes))
    C = C or (D if kind == "flow" else 2)
    grids, data = [], []
    n = C
    for m in shape:
        n *= m
    for k in range(3):
        g, _ = sym_grid(ctx, f"g{k}", D, ctx.seed, k, sizes=sizes, rotation=False)
        grids.append(g)
        data.append(ctx.reals(f"I{k}v", [((7 * i + 3 * k) % 11) / 4 + 0.125 for i in range(n)], nice=(-8, 8)).reshape((C,) + shape))
    x = torch.stack(data)
    if kind == "flow":
        return FlowFields(x, grids, "world"), grids
    return ImageBatch(x, grids), grids


def _items_of(ctx, t):
    """Input items (0..2) whose voxel variables occur in the terms of tensor t."""
    if ctx.mode != "sym":
        return None
    from symtorch import terms as tm

    ctx.counters["dependency_analyses"] = ctx.counters.get("dependency_analyses", 0) + 1
    fv = tm.free_vars(list(ctx.eng.terms(t).reshape(-1)))
    return sorted({int(n[1]) for n in fv if n.startswith("I") and n[2] == "v"})


def _items_replay(pos, j):
    """Replay: items whose perturbation changes entry j (or the whole tensor if j is None) of result number pos."""
    if "base" not in _DEPS:
        return None
    base = _DEPS["base"][pos]
    out = []
    for k in range(3):
        other = _DEPS["deps"][k][pos]
        if base is None or other is None or base.shape != other.shape:
            return None
        a, c = (base, other) if j is None else (base[j], other[j])
        if not torch.equal(a, c):
            out.append(k)
    return out


def _grid_item_replay(g, grids):
    for k, h in enumerate(grids):
        if torch.equal(g.center(), h.center()) and torch.equal(g.spacing(), h.spacing()):
            return k
    return None


def _grid_item(ctx, g):
    if ctx.mode != "sym":
        return None
    from symtorch import terms as tm

    fv = tm.free_vars(list(ctx.eng.terms(g.center()).reshape(-1)))
    ks = sorted({int(n[1]) for n in fv if n.startswith("g") and n[2] == "c"})
    return ks[0] if len(ks) == 1 else None


def _check_result(ctx, res, grids, what, D, kind):
    from deepali.data.image import ImageBatch, Image
    from deepali.data.flow import FlowFields, FlowField

    if isinstance(res, (tuple, list)):
        for i, r in enumerate(res):
            _check_result(ctx, r, grids, f"{what}[{i}]", D, kind)
        return
    if not isinstance(res, torch.Tensor):
        return
    if isinstance(res, (ImageBatch, Image)) and not hasattr(res, "_grid"):
        ctx.true(torch.tensor([False]), f"{what}: result has an image type but no grid (mis-described image)")
        return
    if isinstance(res, ImageBatch):
        gs = list(res.grids())
        ctx.eq(torch.tensor([len(gs)]), torch.tensor([res.shape[0]]), f"{what}: one grid per batch entry")
        ctx.eq(torch.tensor([res.ndim]), torch.tensor([D + 2]), f"{what}: image batch has N, C and D spatial dims")
        for j, g in enumerate(gs[: res.shape[0]]):
            ctx.eq(torch.tensor(list(g.shape)), torch.tensor(list(res.shape[2:])), f"{what}: grid {j} has the spatial shape of the data")
            items = _items_of(ctx, res.tensor()[j]) if ctx.mode == "sym" else _items_replay(_DEPS.get("pos", 0), j)
            gi = _grid_item(ctx, g) if ctx.mode == "sym" else _grid_item_replay(g, grids)
            if items is not None and len(items) == 1:
                ctx.eq(torch.tensor([gi if gi is not None else -1]), torch.tensor([items[0]]), f"{what}: entry {j} holds the data of item {items[0]} and must carry its grid")
        if isinstance(res, FlowFields) and kind == "flow":
            ctx.eq(torch.tensor([str(res.axes().value)== "world"]), torch.tensor([True]), f"{what}: axes preserved")
    elif isinstance(res, Image):
        g = res.grid()
        ctx.eq(torch.tensor(list(g.shape)), torch.tensor(list(res.shape[1:])), f"{what}: image grid has the spatial shape of the data")
        items = _items_of(ctx, res.tensor()) if ctx.mode == "sym" else _items_replay(_DEPS.get("pos", 0), None)
        gi = _grid_item(ctx, g) if ctx.mode == "sym" else _grid_item_replay(g, grids)
        if items is not None and len(items) == 1:
            ctx.eq(torch.tensor([gi if gi is not None else -1]), torch.tensor([items[0]]), f"{what}: image holds the data of item {items[0]} and must carry its grid")
    else:
        ctx.eq(torch.tensor([type(res) is torch.Tensor]), torch.tensor([True]), f"{what}: a result that is not an image type is a plain Tensor")


def PROGRAMS(D):
    sp = (slice(None),) * D
    pool = torch.nn.functional.avg_pool2d if D == 2 else torch.nn.functional.avg_pool3d
    P = {
        "identity-ops": [lambda b: b + 1, lambda b: b * 2.0, lambda b: -b, lambda b: b.abs(), lambda b: b.clamp(0, 1), lambda b: b.float(), lambda b: b.double(), lambda b: b.type(torch.float32)],
        "binary-with-tensor": [lambda b: b + torch.ones(1), lambda b: b * b, lambda b: b - b.tensor()],
        "reductions": [lambda b: b.sum(), lambda b: b.mean(), lambda b: b.sum(0), lambda b: b.sum(1), lambda b: b.sum(1, keepdim=True), lambda b: b.amax(dim=0), lambda b: b.mean(dim=tuple(range(2, D + 2)))],
        "getitem-int": [lambda b: b[0], lambda b: b[1], lambda b: b[2], lambda b: b[-1]],
        "getitem-slices": [lambda b: b[1:], lambda b: b[:2], lambda b: b[::2], lambda b: b[1:2], lambda b: b[...], lambda b: b[:, :1], lambda b: b[0:2, 1:]],
        "getitem-lists": [lambda b: b[[2, 0]], lambda b: b[[1]], lambda b: b[torch.tensor([2, 1, 0])], lambda b: b[np.array([1, 2])]],
        "getitem-spatial": [lambda b: b[(slice(None), slice(None)) + sp], lambda b: b[(slice(None), slice(None)) + (slice(0, 1),) + sp[1:]], lambda b: b[:, 0], lambda b: b[(0, slice(None)) + sp], lambda b: b[(1, 0)]],
        "iter": [lambda b: list(iter(b))],
        "narrow-select": [lambda b: b.narrow(0, 1, 2), lambda b: torch.narrow(b, 0, 0, 1), lambda b: b.select(0, 1), lambda b: b.select(1, 0), lambda b: b.index_select(0, torch.tensor([2, 0])), lambda b: b.index_select(0, torch.tensor([2, 1, 0])), lambda b: b.narrow(1, 0, 1)],
        "cat-stack": [lambda b: torch.cat([b, b]), lambda b: torch.cat([b[1:], b[:1]]), lambda b: torch.cat([b, b], dim=1), lambda b: torch.stack([b[0], b[2]]), lambda b: torch.cat([b[[2]], b[[0]]], dim=0)],
        "split-chunk": [lambda b: b.split(1), lambda b: b.split(2), lambda b: torch.split(b, [1, 2]), lambda b: b.chunk(3), lambda b: b.chunk(2), lambda b: b.unbind(0), lambda b: torch.tensor_split(b, 3), lambda b: torch.tensor_split(b, (1,)), lambda b: b.split(1, dim=1)],
        "reorder": [lambda b: b.flip(0), lambda b: torch.flip(b, (0,)), lambda b: b.roll(1, 0), lambda b: torch.roll(b, -1, 0), lambda b: b.flip(1), lambda b: b.flip(-1)],
        "permute": [lambda b: b.transpose(0, 1), lambda b: b.permute(1, 0, *range(2, D + 2)), lambda b: b.movedim(0, 1), lambda b: b.transpose(-1, -2), lambda b: b.permute(0, 1, *reversed(range(2, D + 2)))],
        "expand-repeat": [lambda b: b[:1].expand(3, *b.shape[1:]), lambda b: b.repeat(2, *([1] * (D + 1))), lambda b: b.repeat(1, 2, *([1] * D)), lambda b: b[:1].repeat(3, *([1] * (D + 1))), lambda b: b.repeat_interleave(2, dim=0)],
        "reshape": [lambda b: b.reshape(b.shape), lambda b: b.reshape(3, -1), lambda b: b.flatten(2), lambda b: b.view(-1), lambda b: b.unsqueeze(0), lambda b: b.squeeze(), lambda b: b.reshape(1, 3 * b.shape[1], *b.shape[2:])],
        "interpolate-pool-pad": [lambda b: torch.nn.functional.interpolate(b, scale_factor=2, mode="nearest"), lambda b: pool(b, 1), lambda b: pool(b, 2, ceil_mode=True), lambda b: torch.nn.functional.pad(b, (1, 1)), lambda b: torch.nn.functional.pad(b, (0, 0))],
        "copies": [lambda b: b.clone(), lambda b: torch.clone(b), lambda b: copy.copy(b), lambda b: copy.deepcopy(b), lambda b: b.detach(), lambda b: b.contiguous(), lambda b: b.to(torch.float32), lambda b: b.cpu()],
        "where-masked": [lambda b: torch.where(b > 0, b, torch.zeros(1)), lambda b: b.masked_fill(b > 1, 0.0), lambda b: b * (b > 0.5)],
    }
    return P


_DEPS = {}


def _flatten(r):
    if isinstance(r, (tuple, list)):
        out = []
        for x in r:
            out.extend(_flatten(x))
        return out
    return [r]


def _replay_dependencies(prog, b):
    """Replay mode: which input items does each result entry depend on? Decided by perturbing one item at a time."""
    base = [x.detach().clone().as_subclass(torch.Tensor) if isinstance(x, torch.Tensor) else None for x in _flatten(prog(b))]
    deps = []
    for k in range(3):
        bk = b.clone()
        bk.as_subclass(torch.Tensor)[k] += 1.0
        outk = [x.detach().as_subclass(torch.Tensor) if isinstance(x, torch.Tensor) else None for x in _flatten(prog(bk))]
        deps.append(outk)
    return base, deps


def ob_program(ctx, D, kind, name, idx):
    b, grids = _batch(ctx, D, kind)
    prog = PROGRAMS(D)[name][idx]
    _DEPS.clear()
    if ctx.mode == "replay":
        base, deps = _replay_dependencies(prog, b)
        _DEPS["base"], _DEPS["deps"] = base, deps
        _DEPS["cursor"] = 0
    res = prog(b)
    ctx.reach()
    for i, r in enumerate(_flatten(res)):
        _DEPS["pos"] = i
        _check_result(ctx, r, grids, f"{name}#{idx}" + (f"[{i}]" if isinstance(res, (tuple, list)) else ""), D, kind)


def ob_program2(ctx, D, kind, first, second):
    """Programs of length two: every image-typed result of the first program is fed to the second."""
    from deepali.data.image import ImageBatch

    b, grids = _batch(ctx, D, kind)
    _DEPS.clear()
    n = 0
    for i, p1 in enumerate(PROGRAMS(D)[first]):
        for m in _flatten(p1(b)):
            if isinstance(m, ImageBatch) and hasattr(m, "_grid") and m.shape[0] == 3 and m.ndim == D + 2 and m.shape[1:] == b.shape[1:]:
                for j, p2 in enumerate(PROGRAMS(D)[second]):
                    for r in _flatten(p2(m)):
                        _check_result(ctx, r, grids, f"{first}#{i}->{second}#{j}", D, kind)
                n += 1
        if n >= 2:
            break


def ob_pickle(ctx, D, kind):
    b, grids = _batch(ctx, D, kind)

    def num(t):
        if ctx.mode == "sym":
            with ctx.eng.suspended():
                return t.detach().clone()
        return t.detach().clone()

    subjects = {"batch": b, "item1": b[1], "slice": b[1:], "item2-of-iter": list(iter(b))[2], "channel-view": b[:, :1]}
    for nm, x in subjects.items():
        if not hasattr(x, "_grid"):
            continue
        if ctx.mode == "sym":
            with ctx.eng.suspended():
                y = pickle.loads(pickle.dumps(x))
        else:
            y = pickle.loads(pickle.dumps(x))
        ctx.eq(torch.tensor([type(y) is type(x)]), torch.tensor([True]), f"pickle {nm}: type preserved")
        ctx.eq(num(y.as_subclass(torch.Tensor)), num(x.as_subclass(torch.Tensor)), f"pickle {nm}: data preserved")
        gx = x.grids() if hasattr(x, "grids") else (x.grid(),)
        gy = y.grids() if hasattr(y, "grids") else (y.grid(),)
        ctx.eq(torch.tensor([len(gy)]), torch.tensor([len(gx)]), f"pickle {nm}: number of grids preserved")
        for a_, b_ in zip(gx, gy):
            ctx.eq(num(b_.center()), num(a_.center()), f"pickle {nm}: grid center preserved")
            ctx.eq(num(b_.spacing()), num(a_.spacing()), f"pickle {nm}: grid spacing preserved")
            ctx.eq(torch.tensor(list(b_.size())), torch.tensor(list(a_.size())), f"pickle {nm}: grid size preserved")
        if hasattr(x, "_axes"):
            ctx.eq(torch.tensor([y.axes() == x.axes()]), torch.tensor([True]), f"pickle {nm}: axes preserved")
        z = copy.deepcopy(x)
        ctx.eq(z.as_subclass(torch.Tensor), x.as_subclass(torch.Tensor), f"deepcopy {nm}: data preserved")
        ctx.eq(torch.tensor([type(z) is type(x)]), torch.tensor([True]), f"deepcopy {nm}: type preserved")


def ob_collate(ctx, D):
    """collate of samples holding images / batches keeps one grid per image in order."""
    from deepali.data.collate import collate_samples
    from deepali.data.image import ImageBatch

    b, grids = _batch(ctx, D, "image")
    samples = [{"img": b[0], "pair": b[0:2]}, {"img": b[2], "pair": b[1:3]}]
    try:
        out = collate_samples(samples)
    except Exception as e:  # API differences are not the subject
        ctx.notes.append(f"collate_samples not applicable: {e!r}")
        return
    img = out["img"]
    _check_result(ctx, img, grids, "collate images", D, "image")
    _check_result(ctx, out["pair"], grids, "collate batches", D, "image")
    ctx.eq(torch.tensor([len(out["pair"].grids())]), torch.tensor([4]), "collate batches: one grid per image of every sample")


def ob_flow_mixed_axes(ctx, D, fn, pos, count):
    """Several FlowFields operands in one call: a result that is a FlowFields declares ONE vector representation, so
    operands given in different representations must be rejected (or converted) wherever the odd one stands."""
    from deepali.data.flow import FlowFields

    sizes = [3, 2, 2][:D]
    shape = tuple(reversed(sizes))
    n = D
    for m in shape:
        n *= m
    ops = []
    g, _ = sym_grid(ctx, "g", D, ctx.seed, 0, sizes=sizes, rotation=False)
    for k in range(count):
        v = ctx.reals(f"I{k}v", [((7 * i + 3 * k) % 11) / 8 + 0.125 for i in range(n)], nice=(-8, 8)).reshape((1, D) + shape)
        ops.append(FlowFields(v, g, "world"))
    world = [f.tensor().clone() for f in ops]
    ops[pos] = ops[pos].axes("cube")  # the same displacement, other representation
    try:
        res = torch.cat(ops, dim=0) if fn == "cat" else torch.stack([o[0] for o in ops], dim=0)
    except ValueError:
        ctx.true(torch.tensor([True]), f"{fn} of {count} flow fields, operand {pos} in another representation: rejected")
        return
    if isinstance(res, FlowFields):
        back = res.axes("world").tensor()
        ctx.eq(back, torch.cat(world, dim=0), f"{fn} of {count} flow fields, operand {pos} in another representation: entries mean the same displacements under the declared axes")
    else:
        ctx.true(torch.tensor([True]), f"{fn}: plain tensor result")


def obligations(tier: str, seed: int):
    obs = []
    for D in (2, 3):
        names = list(PROGRAMS(D))
        for kind in ("image", "flow"):
            for name in names:
                if kind == "flow" and tier == "quick" and name in ("identity-ops", "reductions", "reshape", "where-masked", "interpolate-pool-pad", "expand-repeat"):
                    continue
                if D == 3 and tier == "quick" and name in ("identity-ops", "binary-with-tensor", "where-masked"):
                    continue
                for idx in range(len(PROGRAMS(D)[name])):
                    obs.append((f"{kind}-D{D}-{name}-{idx}", ob_program, dict(D=D, kind=kind, name=name, idx=idx)))
            obs.append((f"{kind}-D{D}-pickle", ob_pickle, dict(D=D, kind=kind)))
        obs.append((f"collate-D{D}", ob_collate, dict(D=D)))
        if tier == "thorough":
            seconds = ("getitem-slices", "reorder", "split-chunk", "cat-stack", "narrow-select", "copies")
            for first in ("identity-ops", "reorder", "getitem-lists", "narrow-select", "copies", "cat-stack"):
                for second in seconds:
                    obs.append((f"image-D{D}-{first}-then-{second}", ob_program2, dict(D=D, kind="image", first=first, second=second)))
    for D in (2, 3):
        for count in (2, 3, 4):
            for pos in range(count):
                obs.append((f"flow-mixed-axes-D{D}-cat-{count}-{pos}", ob_flow_mixed_axes, dict(D=D, fn="cat", pos=pos, count=count)))
    return obs
