"""C06 - A spatial transform means one world-space map, however it is evaluated."""
from __future__ import annotations

import torch

from vlib import geom
from vlib.geom import sym_grid, ref_map

PROPERTY = "C06"
EXPLANATION = (
    "Bounded symbolic execution + SMT. Every transformation model is constructed through its real constructor and evaluated through "
    "forward(), disp()/flow() on its own and on a second grid, matrix()/tensor(), points(axes=WORLD), the composite classes, "
    "ImageTransformer and PointSetTransformer, with symbolic parameters, points and (for linear models) symbolic grid geometry. z3 decides "
    "that all evaluation routes describe the same world-space map (reference conjugation with the harness geometry model), that freshly "
    "constructed transforms are the identity, that Sequential applies members in order and MultiLevel adds displacements, and that warping a "
    "linear-intensity image returns the image evaluated at T(x)."
)
ASSUMPTIONS = [
    "parameters are held as plain tensors (no squashing) unless the obligation name says 'param' (then tanh/exp appear as uninterpreted atoms with the listed axioms)",
    "non-rigid models and image warping use concrete rational grids (interpolation weights are then constants); linear models use symbolic grids",
    "image warping: linear-intensity images (linear interpolation is exact on them) compared within 1e-3 for bounded coefficients",
]
BOUNDS = {"quick": dict(D=[2, 3], groups=[1, 2], grids="<= 4 per axis"), "thorough": dict(D=[2, 3], groups=[1, 2], grids="<= 5 per axis", orders="all Euler orders")}


def _world_map(P, a, cube_map, w):
    """World-space map induced by a cube-space map of the grid with geometry P (reference conjugation)."""
    ax = "cube_corners" if a else "cube"
    x = ref_map("world", ax, w, P)
    y = cube_map(x)
    return ref_map(ax, "world", y, P)


def _pts(ctx, D, name="x", n=2, scale=0.5):
    return ctx.reals(name, [[((3 * i + 5 * d) % 7 - 3) * scale / 3 for d in range(D)] for i in range(n)], nice=(-2, 2))


LINEAR = ("Translation", "EulerRotation", "QuaternionRotation", "IsotropicScaling", "AnisotropicScaling", "Shearing", "HomogeneousTransform",
          "RigidTransform", "RigidQuaternionTransform", "SimilarityTransform", "AffineTransform", "FullAffineTransform")


def _make_linear(ctx, name, grid, D, groups=1, held="tensor", prefix="p"):
    """Construct a linear transform with symbolic parameters. Returns (transform, reference cube map)."""
    import deepali.spatial as S

    def par(nm, wit):
        t = ctx.reals(prefix + nm, [wit] * groups, nice=(-2, 2))
        return torch.nn.Parameter(t) if held == "param" else t

    na = 1 if D == 2 else 3
    ang_w = [0.5, -0.25, 0.75][:na]
    off_w = [0.25, -0.5, 0.125][:D]
    sc_w = [1.25, 0.75, 1.5][:D]
    sh_w = [0.25, -0.125, 0.5][:na]
    if name == "Translation":
        return S.Translation(grid, params=par("t", off_w))
    if name == "EulerRotation":
        return S.EulerRotation(grid, params=par("a", ang_w))
    if name == "QuaternionRotation":
        return S.QuaternionRotation(grid, params=par("q", [1.0, 0.25, -0.5, 0.125]))
    if name == "IsotropicScaling":
        return S.IsotropicScaling(grid, params=par("s", [1.25]))
    if name == "AnisotropicScaling":
        return S.AnisotropicScaling(grid, params=par("s", sc_w))
    if name == "Shearing":
        return S.Shearing(grid, params=par("h", sh_w))
    if name == "HomogeneousTransform":
        return S.HomogeneousTransform(grid, params=par("m", [[1.0 if i == j else 0.125 * (i - j) for j in range(D)] + [0.25 * (i + 1)] for i in range(D)]))
    if name == "RigidTransform":
        return S.RigidTransform(grid, rotation=par("a", ang_w), translation=par("t", off_w))
    if name == "RigidQuaternionTransform":
        return S.RigidQuaternionTransform(grid, rotation=par("q", [1.0, 0.25, -0.5, 0.125]), translation=par("t", off_w))
    if name == "SimilarityTransform":
        return S.SimilarityTransform(grid, scaling=par("s", [1.25]), rotation=par("a", ang_w), translation=par("t", off_w))
    if name == "AffineTransform":
        return S.AffineTransform(grid, scaling=par("s", sc_w), rotation=par("a", ang_w), translation=par("t", off_w))
    if name == "FullAffineTransform":
        return S.FullAffineTransform(grid, scaling=par("s", sc_w), shearing=par("h", sh_w), rotation=par("a", ang_w), translation=par("t", off_w))
    raise ValueError(name)


def _matrix(t):
    """Homogeneous matrix (N, D, D+1) of a linear transform or linear composite."""
    from deepali.core.linalg import as_homogeneous_matrix

    return t.matrix() if hasattr(t, "matrix") else as_homogeneous_matrix(t.tensor())


def _classes(D):
    return [c for c in LINEAR if not (D == 2 and "Quaternion" in c)]


def ob_identity(ctx, name, D):
    """Freshly constructed transform (default parameters) is the identity."""
    import deepali.spatial as S

    g, P = sym_grid(ctx, "g", D, ctx.seed, 0, sizes=geom.pick(geom.SIZES, ctx.seed)[:D])
    if name in ("DisplacementFieldTransform", "StationaryVelocityFieldTransform", "FreeFormDeformation", "StationaryVelocityFreeFormDeformation"):
        kw = dict(stride=2) if "FreeForm" in name else {}
        t = getattr(S, name)(g, **kw)
    else:
        t = getattr(S, name)(g)
    x = _pts(ctx, D).unsqueeze(0)
    ctx.eq(t(x), x, f"{name}(): fresh transform maps points to themselves")
    ctx.eq(t.disp(), torch.zeros(1), f"{name}(): fresh transform has zero displacement field")
    if t.linear:
        ctx.eq(_matrix(t), torch.eye(D, D + 1).unsqueeze(0), f"{name}(): matrix() is the identity")


def ob_linear(ctx, name, D, groups, held, a):
    """forward == matrix applied == x + disp on own grid; world map via points(axes=WORLD)."""
    from deepali.core.linalg import homogeneous_transform
    from deepali.core.grid import Axes

    g, P = sym_grid(ctx, "g", D, ctx.seed, 0, sizes=geom.pick(geom.SIZES, ctx.seed)[:D], align_corners=a)
    t = _make_linear(ctx, name, g, D, groups, held)
    N = groups
    x = _pts(ctx, D).unsqueeze(0).expand(N, -1, -1) if N > 1 else _pts(ctx, D).unsqueeze(0)
    y = t(x)
    ctx.reach()
    M = _matrix(t)
    ctx.eq(torch.tensor(list(M.shape)), torch.tensor([N, D, D + 1]), "matrix() has shape (N, D, D+1)")
    ctx.eq(homogeneous_transform(M, x), y, f"{name}: matrix() applied == forward()")
    ctx.eq(homogeneous_transform(t.tensor(), x), y, f"{name}: tensor() applied == forward()")
    # dense displacement on the own grid
    c = g.coords(align_corners=a).unsqueeze(0)
    u = t.disp()
    yc = t(c.reshape(1, -1, D).expand(N, -1, -1) if N > 1 else c.reshape(1, -1, D))
    ctx.eq((c + u.movedim(1, -1)).reshape(N, -1, D), yc, f"{name}: x + disp()(x) == forward(x) at the grid points")
    ctx.eq(t.flow().tensor(), u, f"{name}: flow() holds disp()")
    # world coordinate API against the reference conjugation
    w = ctx.reals("w", [[0.5 + i, -1.0 + 0.5 * i, 2.0 - i][:D] for i in range(2)], nice=(-8, 8)).unsqueeze(0)
    w = w.expand(N, -1, -1) if N > 1 else w
    tw = t.points(w, axes=Axes.WORLD)
    for k in range(N):
        ref = _world_map(P, a, lambda z, k=k: homogeneous_transform(M[k], z), w[k])
        ctx.eq(tw[k], ref, f"{name}: points(axes=WORLD) == world-conjugated matrix (group {k})")


def ob_linear_other_grid(ctx, name, D, a, a2):
    """disp(other grid) and points(grid=other) describe the same world map."""
    from deepali.core.linalg import homogeneous_transform
    from deepali.core.grid import Axes

    g, P = sym_grid(ctx, "g", D, ctx.seed, 0, sizes=geom.pick(geom.SIZES, ctx.seed)[:D], align_corners=a)
    h, Q = sym_grid(ctx, "h", D, ctx.seed, 1, sizes=[3, 2, 2][:D], align_corners=a2)
    t = _make_linear(ctx, name, g, D)
    M = _matrix(t)[0]
    u = t.disp(h)  # (1, D, *h.shape) in the cube units of h
    ax2 = "cube_corners" if a2 else "cube"
    c2 = h.coords(align_corners=a2)
    w = ref_map(ax2, "world", c2, Q)
    w_new = ref_map(ax2, "world", c2 + u[0].movedim(0, -1), Q)
    ref = _world_map(P, a, lambda z: homogeneous_transform(M, z), w.reshape(-1, D)).reshape(w.shape)
    ctx.eq(w_new, ref, f"{name}: x + disp(other grid)(x) is the same world map")
    # points given in the other grid's cube, returned in world coordinates
    x2 = _pts(ctx, D).unsqueeze(0)
    out = t.points(x2, grid=h, axes=Axes.from_align_corners(a2), to_axes=Axes.WORLD)
    ref2 = _world_map(P, a, lambda z: homogeneous_transform(M, z), ref_map(ax2, "world", x2[0], Q))
    ctx.eq(out[0], ref2, f"{name}: points(grid=other, to_axes=WORLD) == world map")
    # documented defaults: output with respect to the same (grid, axes) as the input when to_grid / to_axes are omitted
    out3 = t.points(x2, grid=h, axes=Axes.from_align_corners(a2))
    ctx.eq(out3[0], ref_map("world", ax2, ref2, Q), f"{name}: points(grid=other) returns coordinates of the other grid (to_grid defaults to grid)")


def ob_composite(ctx, kind, names, D, a):
    import deepali.spatial as S

    g, P = sym_grid(ctx, "g", D, ctx.seed, 0, sizes=geom.pick(geom.SIZES, ctx.seed)[:D], align_corners=a)
    ts = [_make_linear(ctx, nm, g, D, prefix=f"p{i}") for i, nm in enumerate(names)]
    x = _pts(ctx, D).unsqueeze(0)
    if kind == "sequential":
        comp = S.SequentialTransform(*ts)
        ref = x
        for t in ts:
            ref = t(ref)
        ctx.eq(comp(x), ref, "Sequential(A, B, ...)(x) == ...B(A(x))")
    else:
        comp = S.MultiLevelTransform(*ts)
        ref = x
        for t in ts:
            ref = ref + (t(x) - x)
        ctx.eq(comp(x), ref, "MultiLevel(A, B, ...)(x) == x + sum (T_i x - x)")
    c = g.coords(align_corners=a).unsqueeze(0)
    ctx.eq((c + comp.disp().movedim(1, -1)).reshape(1, -1, D), comp(c.reshape(1, -1, D)), f"{kind}: x + disp()(x) == forward(x) at the grid points")


def _nonrigid(ctx, name, grid, D, scale=1 / 16):
    import deepali.spatial as S

    kw = dict(stride=2) if "FreeForm" in name else {}
    if "Velocity" in name:
        kw.update(steps=1)
    t = getattr(S, name)(grid, params=False, **kw)
    shp = (1,) + tuple(t.data_shape)
    n = 1
    for m in shp:
        n *= m
    p = ctx.reals("p", [(((5 * i) % 13) - 6) * scale / 6 for i in range(n)], ge=-0.25, le=0.25, nice=(-0.25, 0.25)).reshape(shp)
    t.data_(p)
    return t


def ob_nonrigid(ctx, name, D, a):
    """Non-rigid models: forward at grid points == x + u; forward(grid=True) likewise; disp(other grid) == resampled field."""
    sizes = (4, 3) if D == 2 else (3, 3, 2)
    g = geom.concrete_grid(D, ctx.seed, 0, align_corners=True if "FreeForm" in name else a, sizes=sizes)
    a = g.align_corners()
    ctx.witness_cells()
    t = _nonrigid(ctx, name, g, D)
    t.update()
    u = t.tensor()
    ctx.eq(torch.tensor(list(u.shape[2:])), torch.tensor(list(g.shape)), f"{name}: displacement buffer has the grid shape")
    c = g.coords(align_corners=a).unsqueeze(0)
    ref = c + u.movedim(1, -1)
    ctx.close(t(c, grid=True), ref, 1e-4, f"{name}: forward(grid points, grid=True) == x + u")
    ctx.close(t(c.reshape(1, -1, D)).reshape(ref.shape), ref, 1e-4, f"{name}: forward(points at grid positions) == x + u (interpolation exact at samples)")
    ctx.eq(t.disp(), u, f"{name}: disp() == tensor()")
    ctx.eq(t.flow().tensor(), u, f"{name}: flow() holds the displacement")


def ob_sequential_nonrigid(ctx, D, a, kind):
    """Composite with a non-rigid member that is not first: members are applied one after the other at the
    already transformed points (Sequential) / displacements are added at the input points (MultiLevel)."""
    import deepali.spatial as S

    sizes = (4, 3) if D == 2 else (3, 3, 2)
    g = geom.concrete_grid(D, ctx.seed, 0, align_corners=a, sizes=sizes)
    ctx.witness_cells()
    A = _make_linear(ctx, "Translation", g, D, prefix="a")
    Bt = _nonrigid(ctx, "DisplacementFieldTransform", g, D)
    comp = (S.SequentialTransform if kind == "sequential" else S.MultiLevelTransform)(A, Bt)
    comp.update()
    c = g.coords(align_corners=a).unsqueeze(0)
    pts = c.reshape(1, -1, D)
    y1 = A(pts)
    if kind == "sequential":
        ref = Bt(y1)
    else:
        ref = pts + (y1 - pts) + (Bt(pts) - pts)
    ctx.eq(comp(pts), ref, f"{kind}(linear, non-rigid)(points) == members applied in order")
    ctx.eq(comp(c, grid=True).reshape(1, -1, D), ref, f"{kind}(linear, non-rigid)(grid points, grid=True) == members applied in order")
    ctx.eq((c + comp.disp().movedim(1, -1)).reshape(1, -1, D), ref, f"{kind}(linear, non-rigid): x + disp()(x) == forward(x)")


def ob_image_transformer(ctx, name, D, a_t, a_tgt, a_src, flip_coords=False, symbolic_grids=False):
    """ImageTransformer(T, target, source)(I)[j] == I(T(w_j)) for linear-intensity images and linear T."""
    from deepali.core.linalg import homogeneous_transform
    from deepali.spatial import ImageTransformer

    from deepali.core.grid import Grid

    sizes = (4, 3) if D == 2 else (3, 3, 2)
    if symbolic_grids:
        # symbolic oriented grids (exact rational arithmetic throughout)
        gt, Pt = sym_grid(ctx, "gt", D, ctx.seed, 0, sizes=sizes, align_corners=a_t)
        tgt, Pg = sym_grid(ctx, "gg", D, ctx.seed, 1, sizes=tuple(reversed(sizes)), align_corners=a_tgt, center_wit=[1.125, -1.875])
        src, Ps = sym_grid(ctx, "gs", D, ctx.seed, 2, sizes=[m + 2 for m in sizes], align_corners=a_src, center_wit=[0.9375, -2.0625])
    else:
        # axis-aligned dyadic grids (all constants exactly representable); orientation is covered by T and by D = 2
        gt = Grid(size=sizes, spacing=(0.75, 1.25, 2.0)[:D], center=(1.0, -2.0, 3.0)[:D], align_corners=a_t)
        tgt = Grid(size=tuple(reversed(sizes)), spacing=(1.0, 0.75, 1.5)[:D], center=(1.125, -1.875, 3.125)[:D], align_corners=a_tgt)
        src = Grid(size=[m + 2 for m in sizes], spacing=(1.5, 1.0, 1.25)[:D], center=(0.9375, -2.0625, 2.9375)[:D], align_corners=a_src)
        Pt = dict(s=gt.spacing().clone(), c=gt.center().clone(), R=gt.direction().clone(), n=list(gt.size()))
        Pg = dict(s=tgt.spacing().clone(), c=tgt.center().clone(), R=tgt.direction().clone(), n=list(tgt.size()))
        Ps = dict(s=src.spacing().clone(), c=src.center().clone(), R=src.direction().clone(), n=list(src.size()))
    t = _make_linear(ctx, name, gt, D)
    al = ctx.reals("al", [0.5, -0.25, 0.75][:D], ge=-2, le=2, nice=(-2, 2))
    be = ctx.reals("be", 1.5, ge=-8, le=8, nice=(-8, 8))
    idx = torch.stack(torch.meshgrid(*[torch.arange(m, dtype=torch.float32) for m in src.shape], indexing="ij"), dim=-1).flip(-1)
    w_src = ref_map("grid", "world", idx, Ps)
    I = ((w_src * al).sum(-1) + be).unsqueeze(0).unsqueeze(0)
    warp = ImageTransformer(t, target=tgt, source=src, padding="border", flip_coords=flip_coords)
    out = warp(I)
    ctx.eq(torch.tensor(list(out.shape[2:])), torch.tensor(list(tgt.shape)), "warped image has the target shape")
    # expected: I(T(w_j)) with w_j the world position of target sample j, T the world map of the transform
    jdx = torch.stack(torch.meshgrid(*[torch.arange(m, dtype=torch.float32) for m in tgt.shape], indexing="ij"), dim=-1).flip(-1)
    w_tgt = ref_map("grid", "world", jdx, Pg)
    M = _matrix(t)[0]
    Tw = _world_map(Pt, a_t, lambda z: homogeneous_transform(M, z), w_tgt.reshape(-1, D)).reshape(w_tgt.shape)
    expect = (Tw * al).sum(-1) + be
    # only where T(w_j) falls inside the source field of view (at the witness)
    si_sym = src.world_to_index(Tw, decimals=None)
    if ctx.mode == "sym":
        with ctx.eng.suspended():
            si = si_sym.detach().clone()
    else:
        si = si_sym.detach()
    hi = torch.tensor([m - 1 for m in src.size()], dtype=si.dtype)
    mask = ((si >= 0.05) & (si <= hi - 0.05)).all(-1)
    if int(mask.sum()) == 0:
        ctx.notes.append("no target sample maps inside the source image")
        return
    ctx.assume_cmp(si_sym[mask], ">=", 0.0)
    ctx.assume_cmp(si_sym[mask], "<=", hi.expand_as(si)[mask])
    ctx.eq(out[0, 0][mask], expect[mask], f"ImageTransformer({name}): output == I(T(x)) at {int(mask.sum())} target samples")


def ob_pointset_transformer(ctx, name, D, a, a2):
    from deepali.core.linalg import homogeneous_transform
    from deepali.core.grid import Axes
    from deepali.spatial import PointSetTransformer

    g, P = sym_grid(ctx, "g", D, ctx.seed, 0, sizes=geom.pick(geom.SIZES, ctx.seed)[:D], align_corners=a)
    h, Q = sym_grid(ctx, "h", D, ctx.seed, 1, sizes=[3, 2, 2][:D], align_corners=a2)
    t = _make_linear(ctx, name, g, D)
    M = _matrix(t)[0]
    x = _pts(ctx, D).unsqueeze(0)
    ax2 = "cube_corners" if a2 else "cube"
    pt = PointSetTransformer(t, grid=h, axes=Axes.from_align_corners(a2), to_axes=Axes.WORLD)
    ref = _world_map(P, a, lambda z: homogeneous_transform(M, z), ref_map(ax2, "world", x[0], Q))
    ctx.eq(pt(x)[0], ref, f"PointSetTransformer({name}): other grid cube -> world")
    pw = PointSetTransformer(t, axes=Axes.WORLD)
    w = ctx.reals("w", [[0.5, -1.0, 2.0][:D]], nice=(-8, 8)).unsqueeze(0)
    ctx.eq(pw(w)[0], _world_map(P, a, lambda z: homogeneous_transform(M, z), w[0]), f"PointSetTransformer({name}): world -> world")


def obligations(tier: str, seed: int):
    obs = []
    nonrigid = ("DisplacementFieldTransform", "StationaryVelocityFieldTransform", "FreeFormDeformation", "StationaryVelocityFreeFormDeformation")
    for D in (2, 3):
        for name in _classes(D) + list(nonrigid):
            obs.append((f"identity-{name}-D{D}", ob_identity, dict(name=name, D=D)))
        for k, name in enumerate(_classes(D)):
            a = bool((k + D + seed) % 2)
            obs.append((f"linear-{name}-D{D}-ac{int(a)}", ob_linear, dict(name=name, D=D, groups=1, held="tensor", a=a)))
            if name in ("Translation", "EulerRotation", "AnisotropicScaling", "RigidTransform", "HomogeneousTransform") or tier == "thorough":
                obs.append((f"linear-{name}-D{D}-N2", ob_linear, dict(name=name, D=D, groups=2, held="tensor", a=not a)))
            if name in ("EulerRotation", "IsotropicScaling", "Shearing", "Translation") or tier == "thorough":
                obs.append((f"linear-{name}-D{D}-param", ob_linear, dict(name=name, D=D, groups=1, held="param", a=a)))
            if name in ("Translation", "EulerRotation", "AnisotropicScaling", "HomogeneousTransform", "AffineTransform") or tier == "thorough":
                obs.append((f"other-grid-{name}-D{D}", ob_linear_other_grid, dict(name=name, D=D, a=a, a2=bool(k % 2))))
            if name in ("Translation", "EulerRotation", "AffineTransform", "HomogeneousTransform") or (tier == "thorough" and name != "QuaternionRotation"):
                obs.append((f"image-transformer-{name}-D{D}", ob_image_transformer, dict(name=name, D=D, a_t=a, a_tgt=not a, a_src=bool(k % 2))))
                if tier == "thorough" and D == 2 and name != "EulerRotation":
                    obs.append((f"image-transformer-{name}-D{D}-symbolic-grids", ob_image_transformer, dict(name=name, D=D, a_t=a, a_tgt=not a, a_src=bool(k % 2), symbolic_grids=True)))
            if name in ("EulerRotation", "AffineTransform") or tier == "thorough":
                obs.append((f"pointset-transformer-{name}-D{D}", ob_pointset_transformer, dict(name=name, D=D, a=a, a2=not a)))
        for kind in ("sequential", "multilevel"):
            obs.append((f"{kind}-D{D}-rot-trans", ob_composite, dict(kind=kind, names=("EulerRotation", "Translation"), D=D, a=True)))
            obs.append((f"{kind}-D{D}-scale-shear-trans", ob_composite, dict(kind=kind, names=("AnisotropicScaling", "Shearing", "Translation"), D=D, a=False)))
        for a in (True, False):
            for kind in ("sequential", "multilevel"):
                obs.append((f"{kind}-nonrigid-D{D}-ac{int(a)}", ob_sequential_nonrigid, dict(D=D, a=a, kind=kind)))
        for name in nonrigid:
            for a in (True, False):
                if "FreeForm" in name and not a:
                    continue
                obs.append((f"nonrigid-{name}-D{D}-ac{int(a)}", ob_nonrigid, dict(name=name, D=D, a=a)))
    return obs
