"""C07 - inverse() really inverts: T^-1(T(x)) = x for every invertible transform model."""
from __future__ import annotations

import torch

from vlib import geom
from vlib.geom import sym_grid
from checks.c06 import _make_linear, _pts, _classes, _nonrigid

PROPERTY = "C07"
EXPLANATION = (
    "Bounded symbolic execution + SMT. Each invertible model is built with symbolic parameters held as optimisable parameter, fixed tensor or "
    "callable; inverse(link, update_buffers) / .inv are obtained through the real code and z3 decides inverse(T(x)) == x and T(inverse(x)) == x for "
    "all parameter values and points (matrix inverses by adjugate with det != 0 as precondition; squashed parameterisations through "
    "uninterpreted tanh/exp atoms). The forward parameters are then overwritten in place with fresh symbolic values and the same inverse object "
    "is checked again. For velocity-field models the inverse's displacement buffer is compared as a term with the negated scaling-and-squaring "
    "of the same velocity field."
)
ASSUMPTIONS = [
    "scalings positive, homogeneous matrices with |det| >= 1/100 (preconditions of invertibility)",
    "velocity-field models: exactness of exp(v) o exp(-v) = id for smooth non-affine fields (second order bound) is not decided; the inverse is compared with exp(-v) as terms",
    "after creating an inverse the forward parameters are changed in place (optimiser style); replacement of the parameter object is covered for link=True only",
]
BOUNDS = {"quick": dict(D=[2, 3], link=[False, True], update_buffers=[False, True], held=["param", "tensor", "callable"]), "thorough": dict(D=[2, 3], link=[False, True], update_buffers=[False, True], held=["param", "tensor", "callable"], all_classes=True)}


def _build(ctx, name, g, D, held):
    import deepali.spatial as S

    if held != "callable":
        return _make_linear(ctx, name, g, D, held=held), None
    # parameters produced by a callable: the callable returns a (symbolic) tensor held outside the transform
    proto = _make_linear(ctx, name, g, D, held="tensor")
    holder = {"p": proto.params if not hasattr(proto, "_transforms") else None}
    if holder["p"] is None:
        return None, None
    cls = type(proto)
    t = cls(g, params=lambda: holder["p"])
    t.update()
    return t, holder


def _precondition(ctx, t, name, D):
    from deepali.core.linalg import as_homogeneous_matrix

    if "Quaternion" in name:
        q = (t if hasattr(t, "quaternion") else t.rotation).data()
        ctx.assume_cmp((q * q).sum(-1), ">=", 0.01)
    M = as_homogeneous_matrix(t.tensor())[0]
    A = M[:, :D]
    if "Scaling" in name or "Similarity" in name or "Affine" in name or "Homogeneous" in name:
        det = torch.det(A)
        ctx.assume_cmp(det * det, ">=", 1e-4)


def ob_linear(ctx, name, D, held, link, update_buffers, use_inv_property=False):
    g, P = sym_grid(ctx, "g", D, ctx.seed, 0, sizes=geom.pick(geom.SIZES, ctx.seed)[:D])
    t, holder = _build(ctx, name, g, D, held)
    if t is None:
        ctx.notes.append("callable parameters not applicable to composites built by name")
        return
    _precondition(ctx, t, name, D)
    x = _pts(ctx, D).unsqueeze(0)
    inv = t.inv if use_inv_property else t.inverse(link=link, update_buffers=update_buffers)
    ctx.reach()
    ctx.eq(inv(t(x)), x, f"{name}[{held}] inverse(link={link}, update_buffers={update_buffers})(T(x)) == x")
    ctx.eq(t(inv(x)), x, f"{name}[{held}] T(inverse(x)) == x")
    ctx.eq(inv.inverse()(x), t(x), f"{name}[{held}] inverse of the inverse == forward")
    # change the forward parameters in place; the SAME inverse object must still invert
    with torch.no_grad():
        targets = [p for p in t.parameters()] + [b for n, b in t.named_buffers() if n.endswith("params")]
        if holder is not None:
            targets = [holder["p"]]
        for k, p in enumerate(targets):
            d = ctx.reals(f"d{k}", (torch.ones(p.shape) * 0.125).tolist(), nice=(-0.5, 0.5))
            p.add_(d)
    _precondition(ctx, t, name, D)
    ctx.eq(inv(t(x)), x, f"{name}[{held}] after an in-place parameter change the same inverse object still inverts")


def ob_sequential(ctx, D, link):
    import deepali.spatial as S

    g, P = sym_grid(ctx, "g", D, ctx.seed, 0, sizes=geom.pick(geom.SIZES, ctx.seed)[:D])
    a = _make_linear(ctx, "EulerRotation", g, D, prefix="a")
    b = _make_linear(ctx, "AnisotropicScaling", g, D, prefix="b")
    c = _make_linear(ctx, "Translation", g, D, prefix="c")
    seq = S.SequentialTransform(a, b, c)
    s = b.scales() if hasattr(b, "scales") else None
    ctx.assume_cmp(b.data(), ">=", 0.05)
    x = _pts(ctx, D).unsqueeze(0)
    inv = seq.inverse(link=link)
    ctx.eq(inv(seq(x)), x, f"Sequential.inverse(link={link})(T(x)) == x")
    ctx.eq(seq(inv(x)), x, "T(Sequential.inverse(x)) == x")
    names = [type(m).__name__ for m in inv.transforms()]
    ctx.eq(torch.tensor([names == ["Translation", "AnisotropicScaling", "EulerRotation"]]), torch.tensor([True]), "inverse reverses the member order")


def ob_sequential_replace(ctx, D, held, via_inv):
    """Linked inverse of a composite follows a replacement of a member's parameters."""
    import deepali.spatial as S

    g, P = sym_grid(ctx, "g", D, ctx.seed, 0, sizes=geom.pick(geom.SIZES, ctx.seed)[:D])
    a = _make_linear(ctx, "EulerRotation", g, D, held=held, prefix="a")
    c = _make_linear(ctx, "Translation", g, D, held=held, prefix="c")
    seq = S.SequentialTransform(a, c)
    inv = seq.inv if via_inv else seq.inverse(link=True)
    x = _pts(ctx, D).unsqueeze(0)
    ctx.eq(inv(seq(x)), x, "linked composite inverse inverts")
    new_t = ctx.reals("nt", [[0.5, -0.75, 0.25][:D]], nice=(-2, 2))
    c.offset_(new_t)
    ctx.eq(inv(seq(x)), x, "linked composite inverse follows offset_() on a member")
    new_a = ctx.reals("na", [[0.25, 0.5, -0.375][: (1 if D == 2 else 3)]], gt=-3, lt=3, nice=(-2, 2))
    a.angles_(new_a)
    ctx.eq(inv(seq(x)), x, "linked composite inverse follows angles_() on a member")


def ob_replace(ctx, name, D, held):
    """Linked inverse follows a replacement of the forward parameter object."""
    g, P = sym_grid(ctx, "g", D, ctx.seed, 0, sizes=geom.pick(geom.SIZES, ctx.seed)[:D])
    t = _make_linear(ctx, name, g, D, held=held)
    inv = t.inverse(link=True)
    x = _pts(ctx, D).unsqueeze(0)
    if ctx.mode == "sym":
        with ctx.eng.suspended():
            wit = (t.data().detach().clone() * 0.75 + 0.25).tolist()
    else:
        wit = (t.data().detach().clone() * 0.75 + 0.25).tolist()
    new = ctx.reals("q", wit, nice=(-2, 2))
    t.data_(new)
    _precondition(ctx, t, name, D)
    ctx.eq(inv(t(x)), x, f"{name}[{held}] linked inverse follows data_() replacement")


def ob_velocity(ctx, name, D, a, link, update_buffers):
    """Velocity-field models: inverse displacement == exp(-v) of the same velocity field."""
    from deepali.core.flow import expv

    sizes = (4, 3) if D == 2 else (3, 3, 2)
    g = geom.concrete_grid(D, ctx.seed, 0, align_corners=True if "FreeForm" in name else a, sizes=sizes)
    a = g.align_corners()
    ctx.witness_cells()
    t = _nonrigid(ctx, name, g, D)
    t.update()
    v = t.v
    inv = t.inverse(link=link, update_buffers=update_buffers)
    if not update_buffers:
        inv.update()
    ref = expv(v, steps=1, align_corners=a, inverse=True)
    ctx.eq(inv.tensor(), ref, f"{name}.inverse(link={link}, update_buffers={update_buffers}).u == exp(-v)")
    ctx.eq(inv.disp(), ref, f"{name}.inverse().disp() == exp(-v)")
    ctx.eq(t.tensor(), expv(v, steps=1, align_corners=a), "forward displacement unchanged by creating the inverse")
    # parameter change, then both are recomputed from the same parameters
    with torch.no_grad():
        p = t.data()
        d = ctx.reals("d", (torch.ones(p.shape) / 64).tolist(), nice=(-0.1, 0.1))
        p.add_(d)
    x = g.coords(align_corners=a).unsqueeze(0)
    y = inv(x, grid=True)  # __call__ runs update()
    t.update()
    ctx.eq(inv.tensor(), expv(t.v, steps=1, align_corners=a, inverse=True), "after an in-place parameter change the inverse is exp(-v) of the new field")


def ob_expflow(ctx, D, a, steps):
    """ExpFlow module: every way of asking for the inverse map gives exp(-v), and composing it with exp(v) is the
    identity for affine-free constant fields (translations)."""
    from deepali.core.flow import expv
    from deepali.modules.flow import ExpFlow

    shape = (3, 4) if D == 2 else (3, 3, 3)
    n = D
    for m in shape:
        n *= m
    ctx.witness_cells()
    v = ctx.reals("v", [((((5 * i) % 13) - 6) or 7) / 96 + (i % 7) / 977 for i in range(n)], nice=(-0.2, 0.2)).reshape((1, D) + shape)
    ref = expv(-v, steps=steps, align_corners=a)
    fwd = expv(v, steps=steps, align_corners=a)
    m = ExpFlow(steps=steps, align_corners=a)
    ctx.eq(m(v), fwd, "ExpFlow(v) == expv(v)")
    ctx.eq(m(v, inverse=True), ref, "ExpFlow(v, inverse=True) == expv(-v)")
    ctx.eq(m.inverse()(v), ref, "ExpFlow.inverse()(v) == expv(-v)")
    ctx.eq(m.inverse()(v, inverse=True), fwd, "ExpFlow.inverse()(v, inverse=True) == expv(v)")
    ctx.eq(expv(v, steps=steps, align_corners=a, inverse=True), ref, "expv(v, inverse=True) == expv(-v)")
    ctx.eq(ExpFlow(scale=-1, steps=steps, align_corners=a)(v), ref, "ExpFlow(scale=-1)(v) == expv(-v)")


def obligations(tier: str, seed: int):
    obs = []
    for D in (2, 3):
        names = [n for n in _classes(D)]
        for k, name in enumerate(names):
            if tier == "quick" and D == 3 and name in ("SimilarityTransform", "AffineTransform", "FullAffineTransform"):
                continue  # 3-D composites with three Euler angles, scaling and shearing: thorough tier only
            simple = name in ("Translation", "EulerRotation", "QuaternionRotation", "IsotropicScaling", "AnisotropicScaling", "Shearing", "HomogeneousTransform")
            helds = ("param", "tensor", "callable") if simple else ("param", "tensor")
            heavy = tier == "quick" and D == 3 and name == "RigidTransform"
            if heavy:
                helds = ("tensor",)
            for j, held in enumerate(helds):
                combos = [(False, False), (True, False), (False, True), (True, True)]
                if tier == "quick":
                    combos = [combos[(k + j + D) % 4], combos[(k + j + D + 1) % 4]]
                if heavy:
                    combos = combos[:1]
                for link, ub in combos:
                    obs.append((f"linear-{name}-D{D}-{held}-link{int(link)}-ub{int(ub)}", ob_linear, dict(name=name, D=D, held=held, link=link, update_buffers=ub)))
            if not heavy:
                obs.append((f"inv-property-{name}-D{D}", ob_linear, dict(name=name, D=D, held="param", link=True, update_buffers=True, use_inv_property=True)))
            if simple:
                for held in ("param", "tensor"):
                    obs.append((f"replace-{name}-D{D}-{held}", ob_replace, dict(name=name, D=D, held=held)))
        for link in (False, True):
            obs.append((f"sequential-D{D}-link{int(link)}", ob_sequential, dict(D=D, link=link)))
        if D == 2 or tier == "thorough":
            for held in ("tensor", "param"):
                obs.append((f"sequential-replace-D{D}-{held}", ob_sequential_replace, dict(D=D, held=held, via_inv=held == "param")))
        for name in ("StationaryVelocityFieldTransform", "StationaryVelocityFreeFormDeformation"):
            for link, ub in ((False, False), (False, True), (True, True)):
                obs.append((f"velocity-{name}-D{D}-link{int(link)}-ub{int(ub)}", ob_velocity, dict(name=name, D=D, a=bool(D % 2), link=link, update_buffers=ub)))
    for D in (2, 3):
        for a in (True, False):
            obs.append((f"expflow-D{D}-ac{int(a)}", ob_expflow, dict(D=D, a=a, steps=1 if D == 3 else 2)))
    return obs
