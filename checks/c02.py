"""C02 - Grid <-> world convention agrees with ITK for every oriented image geometry."""
from __future__ import annotations

import torch

from vlib import geom
from vlib.geom import sym_grid, sym_rotation, ref_index_to_world, ref_world_to_index

PROPERTY = "C02"
EXPLANATION = (
    "Bounded symbolic execution + SMT against a reference model. The ITK image geometry P = O + R diag(s) i (ITK software guide) is written "
    "in the harness; Grid construction (origin= and center= routes), index_to_world / world_to_index, origin(), center(), from_sitk / "
    "from_reader (through a stub image whose header getters return symbolic values) and the header handed to SimpleITK by Image.sitk() "
    "(captured at the C boundary) are executed symbolically and compared with the model by z3 for all origins, spacings, rotations, "
    "sizes and continuous indices. The model itself is compared with real SimpleITK at every witness and replay."
)
ASSUMPTIONS = [
    "trusted: ten-line ITK geometry model in vlib/geom.py, validated numerically against SimpleITK's TransformContinuousIndexToPhysicalPoint at each witness",
    "SimpleITK itself (C++) is not executed symbolically: Image.sitk() is checked up to the arguments passed to image_from_tensor (stubbed recorder)",
    "rotations quantified through rational parametrisations times concrete signed permutations (axis flips / permutations)",
]
BOUNDS = {"quick": dict(D=[2, 3], sizes="symbolic integers 1..4096", indices="unbounded reals", flips=[0, 1, 2, 3]), "thorough": dict(D=[2, 3], sizes="symbolic integers 1..4096", flips=[0, 1, 2, 3], seeds=3)}


class ModelMismatch(Exception):
    pass


def _check_model_against_sitk(D, n, O, s, R, i):
    """Numeric validation of the trusted reference model against real SimpleITK (witness / replay values)."""
    import SimpleITK as sitk

    n = [int(round(float(v))) for v in torch.as_tensor(n).tolist()]
    img = sitk.Image([max(m, 1) for m in n], sitk.sitkFloat32)
    Of = [float(v) for v in torch.as_tensor(O).detach().double().reshape(-1)]
    sf = [float(v) for v in torch.as_tensor(s).detach().double().reshape(-1)]
    Rf = [float(v) for v in torch.as_tensor(R).detach().double().reshape(-1)]
    img.SetOrigin(Of)
    img.SetSpacing(sf)
    img.SetDirection(Rf)
    Rt = torch.tensor(Rf, dtype=torch.float64).reshape(D, D)
    for row in torch.as_tensor(i).detach().double().reshape(-1, D):
        p_itk = torch.tensor(img.TransformContinuousIndexToPhysicalPoint([float(v) for v in row]), dtype=torch.float64)
        p_ref = ref_index_to_world(row, torch.tensor(Of, dtype=torch.float64), torch.tensor(sf, dtype=torch.float64), Rt)
        if not torch.allclose(p_itk, p_ref, rtol=1e-5, atol=1e-5):
            raise ModelMismatch(f"reference model disagrees with SimpleITK: {p_itk} vs {p_ref}")
        i_itk = torch.tensor(img.TransformPhysicalPointToContinuousIndex([float(v) for v in p_itk]), dtype=torch.float64)
        if not torch.allclose(i_itk, row, rtol=1e-4, atol=1e-4):
            raise ModelMismatch(f"SimpleITK inverse disagrees: {i_itk} vs {row}")


def _numeric(ctx, *tensors):
    """Concrete copies of (possibly symbolic) tensors, outside the engine."""
    if ctx.mode == "sym":
        with ctx.eng.suspended():
            return [torch.as_tensor(t).detach().clone().double() for t in tensors]
    return [torch.as_tensor(t).detach().clone().double() for t in tensors]


def ob_origin_route(ctx, D, flip, ac):
    """Grid(size, origin, spacing, direction) places index i where ITK does; origin()/center() consistent."""
    from deepali.core.grid import Grid

    O = ctx.reals("O", geom.pick(geom.CENTERS, ctx.seed)[:D], nice=(-16, 16))
    s = ctx.reals("s", geom.pick(geom.SPACINGS, ctx.seed)[:D], gt=0, nice=(0.125, 8))
    R = sym_rotation(ctx, "r", D, ctx.seed, 0, flip)
    n = ctx.ints("n", geom.pick(geom.SIZES, ctx.seed)[:D], ge=1, le=4096)
    i = ctx.reals("i", [p[:D] for p in geom.pick(geom.POINTS, ctx.seed)] + [[-3.5, 100.25, 7.0][:D]], nice=(-64, 64))
    _check_model_against_sitk(D, *_numeric(ctx, n, O, s, R, i))
    g = Grid(size=n, origin=O, spacing=s, direction=R, align_corners=ac)
    ctx.reach()
    P = g.index_to_world(i, decimals=None)
    ctx.eq(P, ref_index_to_world(i, O, s, R), "index_to_world == O + R diag(s) i")
    ctx.eq(g.world_to_index(i, decimals=None), ref_world_to_index(i, O, s, R), "world_to_index == diag(1/s) R^T (P - O)")
    ctx.eq(g.origin(), O, "origin() == O")
    ctx.eq(g.center(), O + ((n - 1) / 2 * s) @ R.t(), "center == O + R diag(s) (n-1)/2")
    ctx.eq(g.spacing(), s, "spacing() == s")
    ctx.eq(g.direction(), R, "direction() == R")
    ctx.eq(g.size_tensor(), n, "size == n")
    E = torch.eye(D)
    step = g.index_to_world(E, decimals=None) - g.index_to_world(torch.zeros(D, D), decimals=None)
    ctx.eq(step, (R * s).t(), "unit index step along axis k is s_k * column k of R")
    # the two construction routes agree
    g2 = Grid(size=n, center=g.center(), spacing=s, direction=R, align_corners=ac)
    ctx.eq(g2.origin(), O, "center= route reproduces the origin")
    ctx.eq(g2.index_to_world(i, decimals=None), P, "center= route: same index_to_world")
    # both given consistently must be accepted
    g3 = Grid(size=n, center=g.center(), origin=O, spacing=s, direction=R)
    ctx.eq(g3.origin(), O, "origin= and center= given together (consistent)")
    # origin setter / getter forms
    O2 = ctx.reals("P", geom.pick(geom.CENTERS, ctx.seed, 1)[:D], nice=(-16, 16))
    ctx.eq(g.origin(O2).origin(), O2, "origin(arg).origin() == arg")
    ctx.eq(g.origin(O2).index_to_world(i, decimals=None), ref_index_to_world(i, O2, s, R), "origin(arg): index_to_world follows")
    ctx.eq(g.center(O2).center(), O2, "center(arg).center() == arg")


def ob_center_route(ctx, D, flip):
    from deepali.core.grid import Grid

    c = ctx.reals("c", geom.pick(geom.CENTERS, ctx.seed)[:D], nice=(-16, 16))
    s = ctx.reals("s", geom.pick(geom.SPACINGS, ctx.seed, 1)[:D], gt=0, nice=(0.125, 8))
    R = sym_rotation(ctx, "r", D, ctx.seed, 1, flip)
    n = ctx.ints("n", geom.pick(geom.SIZES, ctx.seed, 1)[:D], ge=1, le=4096)
    i = ctx.reals("i", [p[:D] for p in geom.pick(geom.POINTS, ctx.seed, 1)], nice=(-64, 64))
    g = Grid(size=n, center=c, spacing=s, direction=R)
    O = c - ((n - 1) / 2 * s) @ R.t()
    _check_model_against_sitk(D, *_numeric(ctx, n, O, s, R, i))
    ctx.eq(g.origin(), O, "origin() == c - R diag(s) (n-1)/2")
    ctx.eq(g.index_to_world(i, decimals=None), ref_index_to_world(i, O, s, R), "index_to_world == model")
    ctx.eq(g.world_to_index(i, decimals=None), ref_world_to_index(i, O, s, R), "world_to_index == model")
    ctx.eq(g.affine(), R * s, "affine() == R diag(s)")
    ctx.eq(g.inverse_affine() @ g.affine(), torch.eye(D), "inverse_affine @ affine == I")
    # shape= route (reversed order) and direction given as flat row-major sequence
    g2 = Grid(shape=n.flip(0), center=c, spacing=s, direction=R.flatten())
    ctx.eq(g2.index_to_world(i, decimals=None), ref_index_to_world(i, O, s, R), "shape= / flat direction route")


class _StubImage:
    """Stands in for SimpleITK.Image / ImageFileReader: header getters return symbolic values
    (ITK convention: direction flattened row-major)."""

    def __init__(self, n, O, s, R):
        self.n, self.O, self.s, self.R = n, O, s, R

    def GetSize(self):
        return self.n

    def GetOrigin(self):
        return self.O

    def GetSpacing(self):
        return self.s

    def GetDirection(self):
        return self.R.flatten()


def ob_from_sitk(ctx, D, flip, reader):
    from deepali.core.grid import Grid

    O = ctx.reals("O", geom.pick(geom.CENTERS, ctx.seed, 2)[:D], nice=(-16, 16))
    s = ctx.reals("s", geom.pick(geom.SPACINGS, ctx.seed, 2)[:D], gt=0, nice=(0.125, 8))
    R = sym_rotation(ctx, "r", D, ctx.seed, 2, flip)
    n = ctx.ints("n", geom.pick(geom.SIZES, ctx.seed, 2)[:D], ge=1, le=4096)
    i = ctx.reals("i", [p[:D] for p in geom.pick(geom.POINTS, ctx.seed)], nice=(-64, 64))
    stub = _StubImage(n, O, s, R)
    g = Grid.from_reader(stub) if reader else Grid.from_sitk(stub)
    ctx.eq(g.origin(), O, "from_sitk: origin")
    ctx.eq(g.spacing(), s, "from_sitk: spacing")
    ctx.eq(g.direction(), R, "from_sitk: direction (row-major)")
    ctx.eq(g.size_tensor(), n, "from_sitk: size")
    ctx.eq(g.index_to_world(i, decimals=None), ref_index_to_world(i, O, s, R), "from_sitk: index_to_world == ITK model")
    # real SimpleITK header at the witness (values only): same numbers come back
    import SimpleITK as sitk

    nn, On, sn, Rn = _numeric(ctx, n, O, s, R)
    img = sitk.Image([int(v) for v in nn.tolist()], sitk.sitkUInt8)
    img.SetOrigin(On.tolist()); img.SetSpacing(sn.tolist()); img.SetDirection(Rn.flatten().tolist())
    if ctx.mode == "replay":
        g_real = Grid.from_sitk(img)
        ctx.eq(g_real.origin(), On, "real sitk header: origin")
        ctx.eq(g_real.direction(), Rn, "real sitk header: direction")


def ob_to_sitk(ctx, D, flip):
    """Image.sitk() hands origin / spacing / row-major direction of its grid to SimpleITK (captured at the C boundary)."""
    from deepali.core.grid import Grid
    from deepali.data.image import Image
    import deepali.utils.simpleitk.torch as sitk_torch

    O = ctx.reals("O", geom.pick(geom.CENTERS, ctx.seed, 1)[:D], nice=(-16, 16))
    s = ctx.reals("s", geom.pick(geom.SPACINGS, ctx.seed, 3)[:D], gt=0, nice=(0.125, 8))
    R = sym_rotation(ctx, "r", D, ctx.seed, 3, flip)
    sizes = geom.pick(geom.SIZES, ctx.seed, 1)[:D]
    g = Grid(size=sizes, origin=O, spacing=s, direction=R)
    data = torch.zeros((1,) + tuple(reversed(sizes)))
    im = Image(data, g)
    captured = {}
    orig = sitk_torch.image_from_tensor

    def recorder(data, origin=None, spacing=None, direction=None):
        captured.update(origin=origin, spacing=spacing, direction=direction)
        if ctx.mode == "sym":
            with ctx.eng.suspended():
                return orig(torch.as_tensor(data).detach().clone(), origin=[float(v) for v in origin], spacing=[float(v) for v in spacing], direction=[float(v) for v in direction])
        return orig(data, origin=origin, spacing=spacing, direction=direction)

    sitk_torch.image_from_tensor = recorder
    try:
        simg = im.sitk()
    finally:
        sitk_torch.image_from_tensor = orig

    def terms_of_list(xs):
        if ctx.mode == "sym":
            import numpy as np
            from symtorch import terms as tm

            a = np.empty(len(xs), dtype=object)
            for k, v in enumerate(xs):
                a[k] = getattr(v, "term", None) or tm.const(float(v))
            return a
        return [float(v) for v in xs]

    ctx.eq(terms_of_list(captured["origin"]), O, "Image.sitk(): origin passed to SimpleITK")
    ctx.eq(terms_of_list(captured["spacing"]), s, "Image.sitk(): spacing passed to SimpleITK")
    ctx.eq(terms_of_list(captured["direction"]), R.flatten(), "Image.sitk(): direction passed row-major")
    # and real SimpleITK maps indices as the grid does (numeric, at witness / replay values)
    i = torch.tensor([[1.0, 2.0, 0.5][:D], [0.0, 0.0, 0.0][:D]])
    On, sn, Rn = _numeric(ctx, O, s, R)
    for row in i:
        p = torch.tensor(simg.TransformContinuousIndexToPhysicalPoint([float(v) for v in row]), dtype=torch.float64)
        ref = ref_index_to_world(row.double(), On, sn, Rn)
        if ctx.mode == "replay":
            ctx.eq(p, ref, "real SimpleITK image maps index like the model")
    # round trip header -> grid -> header through the real library
    g2 = Grid.from_sitk(simg)
    if ctx.mode == "replay":
        ctx.eq(g2.origin(), On, "sitk round trip: origin")
        ctx.eq(g2.spacing(), sn, "sitk round trip: spacing")
        ctx.eq(g2.direction(), Rn, "sitk round trip: direction")
        ctx.eq(torch.tensor(list(g2.size())), torch.tensor(sizes), "sitk round trip: size")


def obligations(tier: str, seed: int):
    obs = []
    for D in (2, 3):
        for flip in (0, 1, 2, 3):
            obs.append((f"origin-route-D{D}-f{flip}", ob_origin_route, dict(D=D, flip=flip, ac=bool((flip + seed) % 2))))
            obs.append((f"center-route-D{D}-f{flip}", ob_center_route, dict(D=D, flip=flip)))
            obs.append((f"from-sitk-D{D}-f{flip}", ob_from_sitk, dict(D=D, flip=flip, reader=bool(flip % 2))))
            obs.append((f"to-sitk-D{D}-f{flip}", ob_to_sitk, dict(D=D, flip=flip)))
    return obs
