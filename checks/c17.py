"""C17 - Deformation regularisers have the right null space, sign, scaling and units."""
from __future__ import annotations

import itertools

import torch

from checks.c12 import _coords, _spacing, _interior
from checks.c14 import B as BS

PROPERTY = "C17"
EXPLANATION = (
    "Bounded symbolic execution + SMT. The regularisers in losses.functional (and their module forms) are executed on 5^D (bending: 4x5 / 4^3) "
    "fields whose coefficients (affine, quadratic, free) and grid spacing are symbolic; z3 decides the null spaces (affine for bending / "
    "curvature, translations for first-order terms), the analytic values on affine fields, invariance under adding an affine field, quadratic / "
    "absolute homogeneity, the power of the spacing, the B-spline bending energy against the analytic spline second derivatives, reductions, "
    "and the unit conversion of the inverse-consistency error. lame_parameters is executed on symbolic scalars for every pair of elastic "
    "constants and the returned (lambda, mu) are compared with the defining relations."
)
ASSUMPTIONS = [
    "finite-difference mode forward_central_backward unless stated (exact on affine fields up to the border); default modes are checked on interior points",
    "non-negativity is attempted as a polynomial inequality on small fields (sum of squares); a solver 'unknown' is reported as inconclusive",
    "lame_parameters: math.sqrt concretises its argument (claim restricted to the recorded radicand value on that path)",
]
BOUNDS = {"quick": dict(D=[2, 3], shapes=["5x5", "4x4x4"]), "thorough": dict(D=[2, 3], shapes=["5x5", "5x6", "5x5x5"])}
FCB = "forward_central_backward"


def _affine_field(ctx, D, shape, sp, name="u"):
    A = ctx.reals(name + "A", [[(((3 * i + 5 * j) % 7) - 3) / 4 for j in range(D)] for i in range(D)], nice=(-4, 4))
    b = ctx.reals(name + "b", [0.5, -1.0, 0.25][:D], nice=(-4, 4))
    x = _coords(shape, sp)
    u = torch.einsum("cd,nd...->nc...", A, x) + b.reshape((1, D) + (1,) * D)
    return A, b, u


def _free(ctx, name, D, shape, scale=0.25):
    n = D
    for m in shape:
        n *= m
    return ctx.reals(name, [(((5 * i) % 13) - 6) * scale for i in range(n)], nice=(-4, 4)).reshape((1, D) + tuple(shape))


def ob_null_space(ctx, D, shape):
    import deepali.losses.functional as L

    s, sp = _spacing(ctx, "axis", 1, D)
    A, b, u = _affine_field(ctx, D, shape, sp)
    kw = dict(mode=FCB, spacing=s)
    zero = torch.zeros(1)
    ctx.reach()
    for name in ("bending_loss", "curvature_loss"):
        f = getattr(L, name)
        ctx.eq(f(u, **kw), zero, f"{name}: vanishes on affine fields")
        ctx.eq(f(u, reduction="none", **kw), zero, f"{name}: vanishes pointwise on affine fields")
    t = (torch.zeros_like(u) + b.reshape((1, D) + (1,) * D))
    for name in ("diffusion_loss", "total_variation_loss", "grad_loss", "elasticity_loss", "divergence_loss"):
        f = getattr(L, name)
        extra = dict(material_name="rubber") if name == "elasticity_loss" else {}
        ctx.eq(f(t, **extra, **kw), zero, f"{name}: vanishes on translations")
    # analytic values on affine fields
    ctx.eq(L.diffusion_loss(u, **kw), 0.5 * (A * A).sum(), "diffusion_loss(affine) == 1/2 sum A_ij^2")
    ctx.eq(L.divergence_loss(u, **kw), 0.5 * torch.trace(A) ** 2, "divergence_loss(affine) == 1/2 trace(A)^2")
    ctx.eq(L.total_variation_loss(u, **kw), A.abs().sum(), "total_variation_loss(affine) == sum |A_ij|")
    ctx.eq(L.grad_loss(u, p=2, q=1, **kw), (A * A).sum(), "grad_loss(p=2, q=1)(affine) == sum A_ij^2")
    lam, mu = 1.5, 0.75
    sym = A + A.t()
    ctx.eq(L.elasticity_loss(u, first_parameter=lam, second_parameter=mu, **kw), lam / 2 * torch.trace(A) ** 2 + mu / 4 * (sym * sym).sum(), "elasticity_loss(affine) == lambda/2 tr^2 + mu/4 sum (A_jk + A_kj)^2")
    # linear transformations given as matrices yield zero
    M = torch.cat([A, b.reshape(D, 1)], dim=1).unsqueeze(0)
    for name in ("bending_loss", "curvature_loss", "diffusion_loss", "divergence_loss", "total_variation_loss"):
        ctx.eq(getattr(L, name)(M), zero, f"{name}: a linear transformation (matrix) yields zero")


def ob_invariance(ctx, D, shape, name):
    """L(u + affine) == L(u); L(k u) == k^2 L(u); spacing power; reductions."""
    import deepali.losses.functional as L

    s, sp = _spacing(ctx, "axis", 1, D)
    A, b, aff = _affine_field(ctx, D, shape, sp, "a")
    u = _free(ctx, "u", D, shape)
    f = getattr(L, name)
    kw = dict(mode=FCB, spacing=s)
    k = ctx.reals("k", 1.5, nice=(-4, 4))
    none = f(u, reduction="none", **kw)
    if name in ("bending_loss", "curvature_loss"):
        ctx.eq(f(u + aff, reduction="none", **kw), none, f"{name}: unchanged by adding an affine field")
        power = 4
    else:
        t = torch.zeros_like(u) + b.reshape((1, D) + (1,) * D)
        ctx.eq(f(u + t, reduction="none", **kw), none, f"{name}: unchanged by adding a translation")
        power = 2
    if name == "total_variation_loss":
        ctx.eq(f(k * u, reduction="none", **kw), k.abs() * none, f"{name}: |k| homogeneous")
        power = 1
    else:
        ctx.eq(f(k * u, reduction="none", **kw), k * k * none, f"{name}: L(k u) == k^2 L(u)")
    c = ctx.reals("c", 2.0, gt=0, nice=(0.25, 4))
    ctx.eq(f(u, reduction="none", mode=FCB, spacing=s * c), none / c ** power, f"{name}: spacing * c rescales the loss by c^-{power}")
    ctx.eq(f(u, reduction="mean", **kw), none.mean(), f"{name}: mean of none")
    ctx.eq(f(u, reduction="sum", **kw), none.sum(), f"{name}: sum of none")


def ob_axis_spacing(ctx, D, name, mode):
    """A field that varies along x only: the regulariser depends on the spacing of x with the documented power and not at
    all on the spacing of the other axes (also for mode='gaussian', whose kernels are not exact on polynomials)."""
    import deepali.losses.functional as L

    shape = (4, 5) if D == 2 else (3, 3, 5)
    prof = ctx.reals("p", [[0.5, -1.0, 0.25, 1.5, -0.75][: shape[-1]] for _ in range(D)], nice=(-4, 4))  # (D, X)
    u = prof.reshape((1, D) + (1,) * (D - 1) + (shape[-1],)).expand((1, D) + tuple(shape)).clone()
    s = ctx.reals("s", [0.75, 1.25, 2.0][:D], gt=0, nice=(0.125, 8))
    c = ctx.reals("c", 2.5, gt=0, nice=(0.25, 4))
    f = getattr(L, name)
    kw = dict(mode=mode, reduction="none")
    if mode == "gaussian":
        kw["sigma"] = 0.7
    base = f(u, spacing=s, **kw)
    other = torch.cat([s[:1], s[1:] * c])
    ctx.eq(f(u, spacing=other, **kw), base, f"{name}[{mode}]: independent of the spacing of axes the field does not vary along")
    power = {"bending_loss": 4, "curvature_loss": 4, "total_variation_loss": 1}.get(name, 2)
    sx = torch.cat([s[:1] * c, s[1:]])
    ctx.eq(f(u, spacing=sx, **kw), base / c ** power, f"{name}[{mode}]: spacing of x scaled by c rescales the loss by c^-{power}")


def ob_nonneg(ctx, D, name):
    import deepali.losses.functional as L

    shape = (3, 3) if D == 2 else (2, 2, 3)
    u = _free(ctx, "u", D, shape)
    v = getattr(L, name)(u, mode=FCB, reduction="none", **(dict(material_name="rubber") if name == "elasticity_loss" else {}))
    ctx.true(v >= 0, f"{name}: non-negative")


def ob_default_modes(ctx, D, shape):
    """Default derivative modes: null space on interior points."""
    import deepali.losses.functional as L

    s, sp = _spacing(ctx, "axis", 1, D)
    A, b, u = _affine_field(ctx, D, shape, sp)
    for name in ("bending_loss", "curvature_loss"):
        v = getattr(L, name)(u, spacing=s, reduction="none")
        ctx.eq(_interior(v, D, 2), torch.zeros(1), f"{name} (default mode): vanishes on affine fields in the interior")
    v = L.diffusion_loss(u, spacing=s, reduction="none")
    ctx.eq(_interior(v, D, 1), 0.5 * (A * A).sum(), "diffusion_loss (default mode): analytic value in the interior")


def ob_bspline_bending(ctx, D, stride):
    """bspline_bending_loss == energy of the analytic spline second derivatives."""
    from deepali.losses.functional import bspline_bending_loss
    from checks.c14 import _ref_eval_1d

    shape = (5, 4) if D == 2 else (4, 4, 4)
    c = _free(ctx, "c", D, shape)
    v = bspline_bending_loss(c, stride=stride, reduction="none")
    # second derivatives: order per spatial dim (x = 0); spacing default
    pairs = list(itertools.combinations_with_replacement(range(D), 2))
    default_spacing = [2 / (n - 1) for n in reversed(shape)]  # flow_derivatives default, order (x, ...)
    ref = None
    for (d, e) in pairs:
        order = [0] * D
        order[d] += 1
        order[e] += 1
        val = c
        for sd in range(D):
            val = _ref_eval_1d(val, stride, order[sd], val.ndim - 1 - sd)
        val = val / (default_spacing[d] * default_spacing[e])
        sq = (val * val) * (2 if d != e else 1)
        ref = sq if ref is None else ref + sq
    ref = ref.sum(dim=1, keepdim=True)  # summed over the vector components
    ctx.eq(torch.tensor(list(v.shape[2:])), torch.tensor([(m - 3) * stride for m in shape]), "bspline bending: output size (n - 3) * stride")
    ctx.eq(v, ref, f"bspline_bending_loss(stride={stride}) == sum of squared analytic second derivatives (mixed twice)")
    g = ctx.reals("g", [[0.25, -0.5, 0.75][:D]] * D, nice=(-2, 2))
    idx = torch.stack(torch.meshgrid(*[torch.arange(m, dtype=torch.float32) for m in shape], indexing="ij"), dim=0).flip(0)
    lin = torch.einsum("cd,d...->c...", g, idx).unsqueeze(0)
    ctx.eq(bspline_bending_loss(lin, stride=stride), torch.zeros(1), "bspline bending: vanishes for linear coefficient fields")


def ob_lame(ctx, pair):
    from deepali.losses.functional import lame_parameters

    lam_w, mu_w = 1.5, 0.75
    nu_w = lam_w / (2 * (lam_w + mu_w))
    E_w = mu_w * (3 * lam_w + 2 * mu_w) / (lam_w + mu_w)
    wit = dict(lam=lam_w, mu=mu_w, nu=nu_w, E=E_w)
    a, bname = pair
    va = ctx.reals(a, wit[a], gt=0.01, lt=(0.49 if a == "nu" else 100), nice=(0.01, 8))
    vb = ctx.reals(bname, wit[bname], gt=0.01, lt=(0.49 if bname == "nu" else 100), nice=(0.01, 8))
    key = dict(lam="first_parameter", mu="second_parameter", nu="poissons_ratio", E="youngs_modulus")
    vals = {a: va, bname: vb}
    if "E" in vals and "mu" in vals:
        # valid range: 2 mu < E < 3 mu
        ctx.assume_cmp(vals["E"], ">=", 2.05 * vals["mu"])
        ctx.assume_cmp(vals["E"], "<=", 2.95 * vals["mu"])
    lam, mu = lame_parameters(**{key[a]: va, key[bname]: vb})
    lam, mu = torch.as_tensor(lam), torch.as_tensor(mu)
    ctx.reach()
    if "lam" in vals:
        ctx.eq(lam, vals["lam"], f"({a},{bname}): lambda returned as given")
    if "mu" in vals:
        ctx.eq(mu, vals["mu"], f"({a},{bname}): mu returned as given")
    if "nu" in vals:
        ctx.eq(lam, vals["nu"] * 2 * (lam + mu), f"({a},{bname}): nu == lambda / (2 (lambda + mu))")
    if "E" in vals:
        ctx.eq(vals["E"] * (lam + mu), mu * (3 * lam + 2 * mu), f"({a},{bname}): E == mu (3 lambda + 2 mu) / (lambda + mu)")


def ob_inverse_consistency(ctx, D, a, units):
    from deepali.core.grid import Grid
    from deepali.core.flow import affine_flow
    from deepali.losses.functional import inverse_consistency_loss

    sizes = (5, 4) if D == 2 else (4, 3, 4)
    grid = Grid(size=sizes, spacing=(0.75, 1.25, 2.0)[:D], align_corners=a)
    A = ctx.reals("A", [[-0.125 if i == j else 0.03125 * (i - j) for j in range(D)] for i in range(D)], ge=-0.2, le=0.2, nice=(-0.2, 0.2))
    t = ctx.reals("t", [0.0] * D, nice=(-0.25, 0.25))
    M = torch.cat([torch.eye(D) + A, t.reshape(D, 1)], dim=1).unsqueeze(0)  # contraction: keeps the sample hull invariant
    Ai = torch.inverse(torch.eye(D) + A)
    Mi = torch.cat([Ai, -(Ai @ t).reshape(D, 1)], dim=1).unsqueeze(0)
    zero = torch.zeros(1)
    ctx.eq(inverse_consistency_loss(M, Mi, grid=grid, units=units), zero, f"exact inverse pair (matrix, matrix): zero error [{units}]")
    # dense inverse: displacement field of the inverse matrix sampled on the grid (affine, hence exactly interpolated)
    vi = affine_flow(Mi, grid, channels_last=False)
    ctx.eq(inverse_consistency_loss(M, vi, grid=grid, units=units), zero, f"exact inverse pair (matrix, dense field), align_corners={a}: zero error [{units}]")
    ctx.eq(inverse_consistency_loss(M, vi, grid=grid, units=units, reduction="none"), zero, f"exact inverse pair: zero error at every grid point [{units}]")
    # units: error of a pure translation against the identity
    T = torch.cat([torch.eye(D), t.reshape(D, 1)], dim=1).unsqueeze(0)
    I = torch.eye(D, D + 1).unsqueeze(0)
    err = inverse_consistency_loss(T, I, grid=grid, units=units, reduction="none")
    n = torch.tensor(sizes, dtype=torch.float32)
    scale = {"cube": torch.ones(D), "voxel": (n - 1) / 2 if a else n / 2, "world": ((n - 1) / 2 if a else n / 2) * grid.spacing()}[units]
    ref2 = ((t * scale) ** 2).sum()
    ctx.eq(err * err, ref2, f"translation against identity: squared error is |t|^2 in {units} units")
    m = 1
    errm = inverse_consistency_loss(T, I, grid=grid, units=units, margin=m, reduction="none")
    ctx.eq(torch.tensor(list(errm.shape[1:])), torch.tensor([k - 2 * m for k in reversed(sizes)]), "margin removes m samples at each border")
    mask = torch.ones((1, 1) + tuple(reversed(sizes)))
    mask[..., 0] = 0
    em = inverse_consistency_loss(T, I, grid=grid, units=units, mask=mask, reduction="none")
    ctx.eq(em[..., 0], zero, "masked samples have zero error")
    if D == 2:
        mean_m = inverse_consistency_loss(T, I, grid=grid, units=units, mask=mask)
        ctx.eq(mean_m * mean_m, ref2, "mean over the masked region only")


def ob_modules(ctx, D):
    import deepali.losses.flow as M
    import deepali.losses.functional as L

    shape = (5, 5) if D == 2 else (4, 4, 4)
    u = _free(ctx, "u", D, shape)
    for cls_name, fn in (("Bending", L.bending_loss), ("Curvature", L.curvature_loss), ("Diffusion", L.diffusion_loss), ("Divergence", L.divergence_loss), ("TotalVariation", L.total_variation_loss)):
        cls = getattr(M, cls_name, None)
        if cls is None:
            continue
        ctx.eq(cls()(u), fn(u), f"{cls_name} module == functional form")


def obligations(tier: str, seed: int):
    obs = []
    shapes = {2: (5, 5), 3: (4, 4, 4)}
    for D in (2, 3):
        obs.append((f"null-space-D{D}", ob_null_space, dict(D=D, shape=shapes[D])))
        obs.append((f"default-modes-D{D}", ob_default_modes, dict(D=D, shape=(6, 6) if D == 2 else (5, 5, 5))))
        for name in ("bending_loss", "curvature_loss", "diffusion_loss", "divergence_loss", "total_variation_loss", "grad_loss"):
            if D == 3 and tier == "quick" and name in ("curvature_loss", "grad_loss", "total_variation_loss"):
                continue
            obs.append((f"invariance-{name}-D{D}", ob_invariance, dict(D=D, shape=(4, 4) if D == 2 else (3, 3, 3), name=name)))
        for name in ("bending_loss", "diffusion_loss", "divergence_loss", "elasticity_loss"):
            if D == 2 or tier == "thorough":
                obs.append((f"nonneg-{name}-D{D}", ob_nonneg, dict(D=D, name=name)))
        for stride in ((1, 2) if D == 2 else (1,)):
            obs.append((f"bspline-bending-D{D}-s{stride}", ob_bspline_bending, dict(D=D, stride=stride)))
        for a in (True, False):
            for units in ("cube", "voxel", "world"):
                obs.append((f"inverse-consistency-D{D}-ac{int(a)}-{units}", ob_inverse_consistency, dict(D=D, a=a, units=units)))
        obs.append((f"modules-D{D}", ob_modules, dict(D=D)))
        for name in ("diffusion_loss", "bending_loss", "divergence_loss") if D == 2 or tier == "thorough" else ("diffusion_loss",):
            for mode in ("gaussian", FCB):
                obs.append((f"axis-spacing-{name}-{mode}-D{D}", ob_axis_spacing, dict(D=D, name=name, mode=mode)))
    for pair in (("lam", "mu"), ("mu", "nu"), ("mu", "E"), ("lam", "nu"), ("lam", "E"), ("nu", "E")):
        obs.append((f"lame-{pair[0]}-{pair[1]}", ob_lame, dict(pair=pair)))
    return obs
