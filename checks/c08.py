"""C08 - Homogeneous-transform and rotation algebra is exact for every operand form."""
from __future__ import annotations

import itertools
import math

import torch

from vlib import geom

PROPERTY = "C08"
EXPLANATION = (
    "Bounded symbolic execution + SMT. homogeneous_matmul / hmm / homogeneous_transform / as_homogeneous_matrix / homogeneous_matrix are "
    "executed with every entry symbolic for all 9 ordered pairs of operand forms and batch shapes {none, 1, N=2}; euler_rotation_matrix for "
    "all 27 letter orders (and 'Rz o Rx o Rz' notation) is compared with the product of elementary rotations built in the harness and shown "
    "orthogonal with determinant 1 (sin/cos as uninterpreted atoms with sin^2+cos^2=1 instantiated); quaternion conversions are decided "
    "algebraically (sqrt as r>=0 & r*r=x); euler_rotation_order is called with every order string of the finite domain (27 letter orders, "
    "12 in 'R? o R? o R?' notation); the parameter getters / setters of the linear transforms (offset, angles, scales, quaternion, matrix) "
    "are executed with symbolic values, held as optimisable parameter and as plain tensor: set(a); get() == a and the transform's matrix is "
    "the one a denotes (tanh/atanh and exp/log cancel by rewriting on their domains)."
)
ASSUMPTIONS = [
    "sin, cos, tanh, atanh, exp, log are uninterpreted functions constrained only by the instantiated axioms listed under axioms_used",
    "rotation_matrix_to_quaternion is called with eps=0 (the default eps=1e-8 makes the round trip approximate by construction)",
    "angle-axis conversions and euler_rotation_angles (atan2/acos), hence EulerRotation.matrix_(R) and QuaternionRotation.matrix_(R) with the default eps, are not decided: outside what this technique reaches",
    "accessor values inside the representable ranges: |angle| < 3 < pi, |shear angle| < 0.75 < pi/4, scales in (0.5, 2) within (1/e, e)",
]
BOUNDS = {"quick": dict(D=[2, 3], batch=["none", 1, 2], points=2, orders=27), "thorough": dict(D=[2, 3], batch=["none", 1, 2], points=2, orders=27, notations=2)}

FORMS = ("translation", "affine", "homogeneous")


def _operand(ctx, name, D, form, batch, vec1d=False):
    """Symbolic homogeneous operand of the given form / batch shape ('none' | 1 | 2)."""
    lead = () if batch == "none" else (batch,)
    if form == "translation":
        shape = (D,) if (batch == "none" and vec1d) else lead + (D, 1)
    elif form == "affine":
        shape = lead + (D, D)
    else:
        shape = lead + (D, D + 1)
    n = 1
    for s in shape:
        n *= s
    wit = [(((7 * i + 3 * len(name)) % 13) - 6) / 4 for i in range(n)]
    return ctx.reals(name, wit, nice=(-4, 4)).reshape(shape)


def _ref_apply(T, x, D, vectors=False):
    """Reference application written with plain indexing: x (…,P,D) or (P,D); T with optional leading batch."""
    if T.ndim == 1:
        T = T.unsqueeze(1)
    if T.ndim == 2:
        T = T.unsqueeze(0)
    outs = []
    N = max(T.shape[0], x.shape[0] if x.ndim == 3 else 1)
    for n in range(N):
        Tn = T[n if T.shape[0] > 1 else 0]
        xn = x[n if (x.ndim == 3 and x.shape[0] > 1) else 0] if x.ndim == 3 else x
        if Tn.shape[1] == 1:
            y = xn if vectors else xn + Tn[:, 0]
        else:
            y = xn @ Tn[:, :D].t()
            if Tn.shape[1] == D + 1 and not vectors:
                y = y + Tn[:, D]
        outs.append(y)
    if x.ndim == 3 or N > 1:
        return torch.stack(outs)
    return outs[0]


def ob_hmm(ctx, D, fa, fb, ba, bb):
    from deepali.core.linalg import hmm, homogeneous_matmul, homogeneous_transform, as_homogeneous_matrix, homogeneous_matrix

    A = _operand(ctx, "A", D, fa, ba, vec1d=True)
    B = _operand(ctx, "B", D, fb, bb)
    N = max(ba if ba != "none" else 1, bb if bb != "none" else 1)
    xs = (N, 2, D) if N > 1 else (2, D)
    x = ctx.reals("x", [((5 * i) % 9 - 4) / 2 for i in range(2 * D * (N if N > 1 else 1))], nice=(-8, 8)).reshape(xs)
    ctx.reach()
    ref = _ref_apply(A, _ref_apply(B, x, D), D)
    C = hmm(A, B)
    ctx.eq(torch.tensor(list(C.shape[-2:])), torch.tensor([D, D + 1]), "hmm returns (..., D, D+1)")
    ctx.eq(homogeneous_transform(C, x), ref, f"hmm({fa},{fb})(x) == A(B(x))")
    M = homogeneous_matmul(A, B)
    ctx.eq(homogeneous_transform(M, x), ref, f"homogeneous_matmul({fa},{fb})(x) == A(B(x))")
    ctx.eq(homogeneous_transform(A, homogeneous_transform(B, x)), ref, "homogeneous_transform applied twice == reference")
    # conversion keeps the map
    for nm, T in (("A", A), ("B", B)):
        H = as_homogeneous_matrix(T)
        ctx.eq(homogeneous_transform(H, x), _ref_apply(T, x, D), f"as_homogeneous_matrix({nm}) keeps the map")
        H2 = homogeneous_matrix(T)
        ctx.eq(H2, H, f"homogeneous_matrix({nm}) == as_homogeneous_matrix({nm})")
    # vectors: exactly the translation is ignored
    v = ctx.reals("v", [((3 * i) % 7 - 3) / 2 for i in range(2 * D * (N if N > 1 else 1))], nice=(-8, 8)).reshape(xs)
    for nm, T in (("A", A), ("C", C)):
        lin = _ref_apply(T, x + v, D) - _ref_apply(T, x, D)
        ctx.eq(homogeneous_transform(T, v, vectors=True), lin, f"vectors=True ignores exactly the translation ({nm})")
    # offset argument of homogeneous_matrix
    o = ctx.reals("o", [0.5, -1.5, 2.0][:D], nice=(-8, 8))
    Ho = homogeneous_matrix(B, offset=o)
    ctx.eq(homogeneous_transform(Ho, x), _ref_apply(B, x, D) + o, "homogeneous_matrix(B, offset) adds the offset")
    ctx.eq(homogeneous_transform(as_homogeneous_matrix(B), x), _ref_apply(B, x, D), "homogeneous_matrix(B, offset) did not modify B")


def ob_hmm3(ctx, D, forms):
    from deepali.core.linalg import homogeneous_matmul, homogeneous_transform

    Ts = [_operand(ctx, nm, D, f, b) for nm, f, b in zip("ABC", forms, (2, "none", 1))]
    x = ctx.reals("x", [((5 * i) % 9 - 4) / 2 for i in range(2 * 2 * D)], nice=(-8, 8)).reshape(2, 2, D)
    ref = _ref_apply(Ts[0], _ref_apply(Ts[1], _ref_apply(Ts[2], x, D), D), D)
    ctx.eq(homogeneous_transform(homogeneous_matmul(*Ts), x), ref, f"homogeneous_matmul{tuple(forms)} == A(B(C(x)))")


def _elem(axis, c, s):
    one, zero = torch.ones(()), torch.zeros(())
    if axis == "X":
        rows = [[one, zero, zero], [zero, c, -s], [zero, s, c]]
    elif axis == "Y":
        rows = [[c, zero, s], [zero, one, zero], [-s, zero, c]]
    else:
        rows = [[c, -s, zero], [s, c, zero], [zero, zero, one]]
    return torch.stack([torch.stack(r) for r in rows])


def ob_euler(ctx, order, notation, batched, homogeneous):
    from deepali.core.affine import euler_rotation_matrix

    N = 2 if batched else 1
    ang = ctx.reals("a", [[0.5, -0.75, 1.25], [-1.0, 0.25, 2.0]][:N], gt=-3.1416, le=3.1416, nice=(-3, 3))
    a = ang if batched else ang[0]
    arg = order if notation == "letters" else " o ".join("R" + ch.lower() for ch in order)
    if notation == "lower":
        arg = order.lower()
    M = euler_rotation_matrix(a, order=arg, homogeneous=homogeneous)
    ctx.reach()
    Mb = M if batched else M.unsqueeze(0)
    for n in range(N):
        c, s = torch.cos(ang[n]), torch.sin(ang[n])
        R = _elem(order[0], c[0], s[0]) @ _elem(order[1], c[1], s[1]) @ _elem(order[2], c[2], s[2])
        ctx.eq(Mb[n][:, :3], R, f"euler_rotation_matrix({arg!r}) == R{order[0]}(a0) R{order[1]}(a1) R{order[2]}(a2)")
        if homogeneous:
            ctx.eq(Mb[n][:, 3], torch.zeros(3), "homogeneous flag appends a zero column")
        if n == 0:
            Q = Mb[n][:, :3]
            ctx.eq(Q @ Q.t(), torch.eye(3), "orthogonal")
            ctx.eq(torch.det(Q).reshape(1), torch.ones(1), "determinant 1")


def ob_euler2d(ctx, homogeneous):
    from deepali.core.affine import euler_rotation_matrix

    a = ctx.reals("a", [0.75], gt=-3.1416, le=3.1416, nice=(-3, 3))
    M = euler_rotation_matrix(a, homogeneous=homogeneous)
    c, s = torch.cos(a[0]), torch.sin(a[0])
    ctx.eq(M[:, :2], torch.stack([torch.stack([c, -s]), torch.stack([s, c])]), "2-D rotation matrix")
    ctx.eq(M[:, :2] @ M[:, :2].t(), torch.eye(2), "2-D orthogonal")


def ob_quaternion(ctx, batched):
    from deepali.core.linalg import quaternion_to_rotation_matrix, normalize_quaternion

    q = ctx.reals("q", geom.pick(geom.QUATS, ctx.seed), nice=(-4, 4))
    from symtorch import terms as tm

    if ctx.mode == "sym":
        qs = [tm.var(f"q{i}") for i in range(4)]
        n2 = tm.addn([tm.mul(x, x) for x in qs])
        ctx.pre.append(tm.lt(tm.const(1e-6), n2))
        ctx.nice.append(tm.le(tm.const(0.25), n2))
    qq = q.unsqueeze(0) if batched else q
    M = quaternion_to_rotation_matrix(qq)
    M = M[0] if batched else M
    ctx.reach()
    ctx.eq(M, geom.rot3(q), "quaternion_to_rotation_matrix == reference (w,x,y,z)")
    ctx.eq(M @ M.t(), torch.eye(3), "matrix(q) orthogonal")
    ctx.eq(torch.det(M).reshape(1), torch.ones(1), "det matrix(q) == 1")
    ctx.eq(quaternion_to_rotation_matrix(-q), M, "matrix(-q) == matrix(q)")
    k = ctx.reals("k", 2.5, ge=0.01, le=100, nice=(0.125, 8))
    ctx.eq(quaternion_to_rotation_matrix(q * k), M, "matrix(k q) == matrix(q), k > 0")
    u = normalize_quaternion(q)
    ctx.eq((u * u).sum().reshape(1), torch.ones(1), "normalize_quaternion has unit norm")


def ob_quaternion_roundtrip(ctx, branch):
    """matrix -> quaternion -> matrix returns the same rotation, on each branch of the trace case split."""
    from deepali.core.linalg import quaternion_to_rotation_matrix, rotation_matrix_to_quaternion

    wit = {"trace": [1.0, 0.25, -0.5, 0.125], "x": [0.125, 1.0, 0.25, -0.5], "y": [0.125, 0.25, 1.0, -0.5], "z": [-0.125, 0.25, 0.5, 1.0]}[branch]
    q = ctx.reals("q", wit, nice=(-4, 4))
    from symtorch import terms as tm

    if ctx.mode == "sym":
        qs = [tm.var(f"q{i}") for i in range(4)]
        ctx.pre.append(tm.eq(tm.addn([tm.mul(x, x) for x in qs]), tm.ONE) if False else tm.lt(tm.const(1e-3), tm.addn([tm.mul(x, x) for x in qs])))
    R = geom.rot3(q)
    tr = R[0, 0] + R[1, 1] + R[2, 2]
    if branch == "trace":
        ctx.assume(tr > 0.01)
    elif branch == "x":
        ctx.assume((tr < -0.01) & (R[0, 0] > R[1, 1] + 0.01) & (R[0, 0] > R[2, 2] + 0.01))
    elif branch == "y":
        ctx.assume((tr < -0.01) & (R[1, 1] > R[0, 0] + 0.01) & (R[1, 1] > R[2, 2] + 0.01))
    else:
        ctx.assume((tr < -0.01) & (R[2, 2] > R[0, 0] + 0.01) & (R[2, 2] > R[1, 1] + 0.01))
    p = rotation_matrix_to_quaternion(R.unsqueeze(0), eps=0.0)[0]
    ctx.reach()
    # p is parallel to q and has unit norm  <=>  p = +-q/|q|  <=>  same rotation
    for i, j in itertools.combinations(range(4), 2):
        ctx.eq(p[i] * q[j], p[j] * q[i], f"[{branch}] quaternion from matrix is parallel to q ({i},{j})")
    ctx.eq((p * p).sum().reshape(1), torch.ones(1), f"[{branch}] quaternion from matrix has unit norm")


def ob_accessors(ctx, name, D, held):
    """Parameter getters / setters of the linear transforms: set(a) then get() returns a, and the transform's matrix is the
    one the value denotes (squashing by tanh / exp and its inverse cancel)."""
    import deepali.spatial as S
    import deepali.core.functional as U
    from deepali.core.linalg import quaternion_to_rotation_matrix

    g = geom.concrete_grid(D, ctx.seed, 0, sizes=(4, 3) if D == 2 else (3, 3, 2))
    na = 1 if D == 2 else 3
    t = getattr(S, name)(g, params=True if held == "param" else torch.zeros((1,) + tuple(getattr(S, name)(g, params=False).data_shape)))
    if name == "Translation":
        a = ctx.reals("a", [[0.25, -0.5, 0.125][:D]], nice=(-2, 2))
        t.offset_(a)
        ctx.eq(t.offset(), a, f"{name}[{held}]: offset_(a); offset() == a")
        ctx.eq(t.tensor()[0, :, -1], a[0], f"{name}[{held}]: matrix translation column == a")
    elif name == "EulerRotation":
        a = ctx.reals("a", [[0.5, -0.25, 0.75][:na]], gt=-3.0, lt=3.0, nice=(-3, 3))
        t.angles_(a)
        ctx.eq(t.angles(), a, f"{name}[{held}]: angles_(a); angles() == a")
        ctx.eq(t.tensor(), U.euler_rotation_matrix(a, order=t.order), f"{name}[{held}]: matrix == euler_rotation_matrix(a)")
    elif name == "Shearing":
        a = ctx.reals("a", [[0.25, -0.125, 0.5][:na]], gt=-0.75, lt=0.75, nice=(-0.75, 0.75))
        t.angles_(a)
        ctx.eq(t.angles(), a, f"{name}[{held}]: angles_(a); angles() == a")
        ctx.eq(t.tensor(), U.shear_matrix(a), f"{name}[{held}]: matrix == shear_matrix(a)")
    elif name in ("IsotropicScaling", "AnisotropicScaling"):
        n = 1 if name == "IsotropicScaling" else D
        a = ctx.reals("a", [[1.25, 0.75, 1.5][:n]], gt=0.5, lt=2.0, nice=(0.5, 2.0))
        t.scales_(a)
        ctx.eq(t.scales(), a, f"{name}[{held}]: scales_(a); scales() == a")
        ctx.eq(torch.diagonal(t.tensor()[0, :D, :D]), a[0].expand(D), f"{name}[{held}]: matrix diagonal == a")
    elif name == "QuaternionRotation":
        q = ctx.reals("q", [[1.0, 0.25, -0.5, 0.125]], nice=(-2, 2))
        ctx.assume_cmp((q * q).sum(), ">=", 0.25)
        t.quaternion_(q)
        u = t.quaternion()
        for i in range(1, 4):
            ctx.eq(u[0, i] * q[0, 0], u[0, 0] * q[0, i], f"{name}[{held}]: quaternion() parallel to q ({i})")
        ctx.eq((u * u).sum().reshape(1), torch.ones(1), f"{name}[{held}]: quaternion() has unit norm")
        ctx.eq(t.tensor(), quaternion_to_rotation_matrix(q), f"{name}[{held}]: matrix == matrix(q)")
    elif name == "HomogeneousTransform":
        m = ctx.reals("m", [[[1.0 if i == j else 0.125 * (i - j) for j in range(D)] + [0.25 * (i + 1)] for i in range(D)]], nice=(-2, 2))
        t.matrix_(m)
        ctx.eq(t.tensor(), m, f"{name}[{held}]: matrix_(m); tensor() == m")
        ctx.eq(t.matrix(), m, f"{name}[{held}]: matrix() == m")


def obligations(tier: str, seed: int):
    obs = []
    for D in (2, 3):
        for fa, fb in itertools.product(FORMS, FORMS):
            combos = [("none", "none"), (2, 1), (1, 2), ("none", 2), (2, "none"), (2, 2), (1, 1)]
            if tier == "quick":
                k = (FORMS.index(fa) * 3 + FORMS.index(fb) + D + seed) % len(combos)
                combos = [combos[0], combos[1 + k % 6]]
            for ba, bb in combos:
                obs.append((f"hmm-D{D}-{fa}-{fb}-{ba}-{bb}", ob_hmm, dict(D=D, fa=fa, fb=fb, ba=ba, bb=bb)))
        for forms in (("homogeneous", "translation", "affine"), ("affine", "homogeneous", "translation"), ("translation", "affine", "homogeneous")):
            obs.append((f"hmm3-D{D}-" + "-".join(f[0] for f in forms), ob_hmm3, dict(D=D, forms=forms)))
    orders = ["".join(p) for p in itertools.product("XYZ", repeat=3)]
    for k, order in enumerate(orders):
        proper = order[0] != order[1] and order[1] != order[2]
        variants = [("letters", True, False)]
        if proper or tier == "thorough":
            variants += [("letters", False, bool(k % 2)), ("Ro", True, True)]
        if tier == "thorough":
            variants += [("lower", True, False), ("Ro", False, False)]
        for notation, batched, homog in variants:
            obs.append((f"euler-{order}-{notation}-{'batch' if batched else 'single'}{'-h' if homog else ''}", ob_euler, dict(order=order, notation=notation, batched=batched, homogeneous=homog)))
    for h in (False, True):
        obs.append((f"euler-2d{'-h' if h else ''}", ob_euler2d, dict(homogeneous=h)))
    for b in (False, True):
        obs.append((f"quaternion-matrix{'-batch' if b else ''}", ob_quaternion, dict(batched=b)))
    for br in ("trace", "x", "y", "z"):
        obs.append((f"quaternion-roundtrip-{br}", ob_quaternion_roundtrip, dict(branch=br)))
    for name in ("Translation", "EulerRotation", "Shearing", "IsotropicScaling", "AnisotropicScaling", "QuaternionRotation", "HomogeneousTransform"):
        for D in (2, 3):
            if name == "QuaternionRotation" and D == 2:
                continue
            for held in ("param", "tensor"):
                obs.append((f"accessors-{name}-D{D}-{held}", ob_accessors, dict(name=name, D=D, held=held)))
    return obs
