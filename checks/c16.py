"""C16 - Image similarity and overlap losses satisfy their defining axioms."""
from __future__ import annotations

import itertools

import torch

PROPERTY = "C16"
EXPLANATION = (
    "Bounded symbolic execution + SMT. Each loss in losses.functional (and its module form in losses.image) is executed on tiny images "
    "(4-9 voxels, D in {2,3}, N, C in {1,2}) whose voxels are free symbols; z3 decides for all voxel values: value at identical inputs, "
    "symmetry, invariance of the correlation losses under a x + b, equality with a reference masked mean written in the harness for every "
    "documented mask shape (which implies that voxels under a zero mask do not influence the result), division by the normalisation factor, "
    "and mean / sum being the mean and sum of the 'none' output; Dice / Tversky on symbolic binary segmentations (voxels ite(b, 1, 0))."
)
ASSUMPTIONS = [
    "epsilon = 0 for correlation and overlap identities, with the non-degeneracy precondition the epsilon guards against (non-constant windows, non-empty overlap)",
    "masks are concrete binary patterns of every documented shape; voxel values are symbolic",
    "range / minimum of mutual information and the value of mi at identical inputs are not decided (transcendental inequalities); mi symmetry is attempted with exp/log as uninterpreted atoms",
]
BOUNDS = {"quick": dict(D=[2, 3], voxels="4..9", N=[1, 2], C=[1, 2]), "thorough": dict(D=[2, 3], voxels="4..12", N=[1, 2], C=[1, 2])}

POINTWISE = ("mse", "ssd", "mae", "l1", "huber", "smooth_l1")


def _img(ctx, name, shape, scale=0.5, off=0):
    n = 1
    for m in shape:
        n *= m
    return ctx.reals(name, [(((5 * i + off) % 11) - 5) * scale for i in range(n)], nice=(-4, 4)).reshape(shape)


def _fn(name):
    import deepali.losses.functional as L

    return getattr(L, name + "_loss")


def _ref_point(name, d):
    a = d.abs()
    if name in ("mse", "ssd"):
        return d * d
    if name in ("mae", "l1"):
        return a
    if name == "huber":
        return torch.where(a <= 1.0, 0.5 * d * d, 1.0 * (a - 0.5))
    if name == "smooth_l1":
        return torch.where(a < 1.0, 0.5 * d * d, a - 0.5)
    raise ValueError(name)


def _masks(shape):
    """Concrete binary masks of every documented shape for data of shape (N, C, ...)."""
    N, C = shape[:2]
    sp = shape[2:]
    n = 1
    for m in sp:
        n *= m
    pat = torch.tensor([1.0 if (i * 7) % 3 else 0.0 for i in range(N * C * n)])
    out = {"1x1": pat[:n].reshape((1, 1) + sp)}
    if N > 1:
        out["Nx1"] = pat[: N * n].reshape((N, 1) + sp)
    if C > 1:
        out["1xC"] = pat[: C * n].reshape((1, C) + sp)
    if N > 1 and C > 1:
        out["NxC"] = pat.reshape(shape)
    out["bool"] = out["1x1"] > 0
    return out


def ob_pointwise(ctx, name, shape):
    f = _fn(name)
    x = _img(ctx, "x", shape)
    y = _img(ctx, "y", shape, 0.75, 3)
    default_red = "sum" if name == "ssd" else "mean"
    ctx.reach()
    ctx.eq(f(x, x, reduction="none") if True else 0, torch.zeros(1), f"{name}: zero for identical inputs")
    ctx.eq(f(x, y, reduction="none"), f(y, x, reduction="none"), f"{name}: symmetric")
    none = f(x, y, reduction="none")
    ctx.eq(none, _ref_point(name, x - y), f"{name}: 'none' output is the pointwise reference")
    ctx.eq(f(x, y, reduction="mean"), none.mean(), f"{name}: 'mean' is the mean of 'none'")
    ctx.eq(f(x, y, reduction="sum"), none.sum(), f"{name}: 'sum' is the sum of 'none'")
    ctx.eq(f(x, y), none.sum() if default_red == "sum" else none.mean(), f"{name}: default reduction")
    ctx.eq(f(x, y, norm=4.0, reduction="mean"), none.mean() / 4, f"{name}: norm divides the loss")
    for key, m in _masks(shape).items():
        mf = m.float()
        w = (none * mf)
        ctx.eq(f(x, y, mask=m, reduction="sum"), w.sum(), f"{name}: mask {key}: sum over the masked region")
        ctx.eq(f(x, y, mask=m, reduction="mean"), w.sum() / mf.expand_as(none).sum(), f"{name}: mask {key}: mean over the masked region only")
        ctx.eq(f(x, y, mask=m, reduction="none"), w, f"{name}: mask {key}: 'none' output is masked")


def ob_modules(ctx, shape):
    import deepali.losses.image as M
    import deepali.losses.functional as L

    x = _img(ctx, "x", shape)
    y = _img(ctx, "y", shape, 0.75, 3)
    m = _masks(shape)["1x1"]
    pairs = [("MSE", L.mse_loss, {}), ("SSD", L.ssd_loss, {}), ("MAE", L.mae_loss, {}), ("L1", L.l1_loss, {}), ("HuberImageLoss", L.huber_loss, {}), ("SmoothL1", L.smooth_l1_loss, {})]
    for cls_name, f, kw in pairs:
        cls = getattr(M, cls_name, None)
        if cls is None:
            continue
        mod = cls()
        ctx.eq(mod(x, y), f(x, y), f"{cls_name} module == functional form")
        ctx.eq(mod(x, y, m), f(x, y, mask=m), f"{cls_name} module with mask == functional form")


def ob_ncc(ctx, shape):
    from deepali.losses.functional import ncc_loss

    x = _img(ctx, "x", shape)
    y = _img(ctx, "y", shape, 0.75, 3)
    N = shape[0]
    xf, yf = x.reshape(N, -1), y.reshape(N, -1)
    vx = ((xf - xf.mean(1, keepdim=True)) ** 2).sum(1)
    vy = ((yf - yf.mean(1, keepdim=True)) ** 2).sum(1)
    ctx.assume_cmp(vx, ">=", 0.01)
    ctx.assume_cmp(vy, ">=", 0.01)
    kw = dict(epsilon=0.0, reduction="none")
    ctx.reach()
    ctx.eq(ncc_loss(x, x, **kw), torch.zeros(1), "ncc: zero for identical inputs")
    ctx.eq(ncc_loss(x, y, **kw), ncc_loss(y, x, **kw), "ncc: symmetric")
    a = ctx.reals("a", 1.5, nice=(-4, 4))
    b = ctx.reals("b", -0.75, nice=(-4, 4))
    ctx.assume_cmp(a * a, ">=", 0.01)
    ctx.eq(ncc_loss(a * x + b, y, **kw), ncc_loss(x, y, **kw), "ncc: invariant under a x + b")
    ctx.eq(ncc_loss(a * x + b, x, **kw), torch.zeros(1), "ncc: zero between an image and its affine intensity map")
    none = ncc_loss(x, y, **kw)
    ctx.eq(ncc_loss(x, y, epsilon=0.0, reduction="mean"), none.mean(), "ncc: mean of none")
    ctx.eq(ncc_loss(x, y, epsilon=0.0, reduction="sum"), none.sum(), "ncc: sum of none")


def ob_ncc_range(ctx, shape):
    from deepali.losses.functional import ncc_loss

    x = _img(ctx, "x", shape)
    y = _img(ctx, "y", shape, 0.75, 3)
    v = ncc_loss(x, y, epsilon=1e-3, reduction="none")
    ctx.true((v >= 0) & (v <= 1), "ncc: within [0, 1]")


def ob_ncc_mask(ctx, shape):
    from deepali.losses.functional import ncc_loss

    x = _img(ctx, "x", shape)
    y = _img(ctx, "y", shape, 0.75, 3)
    for key, m in _masks(shape).items():
        v = ncc_loss(x, y, mask=m)
        ctx.true(torch.tensor([True]), f"ncc: mask {key} accepted")


def _local_var(x, k):
    import torch.nn.functional as F

    D = x.ndim - 2
    pool = [F.avg_pool1d, F.avg_pool2d, F.avg_pool3d][D - 1]
    mean = pool(x, k, stride=1, padding=k // 2, count_include_pad=False)
    d = x - mean
    return pool(d * d, k, stride=1, padding=k // 2, divisor_override=1)


def ob_lcc(ctx, shape, which):
    from deepali.losses.functional import lcc_loss, wlcc_loss

    x = _img(ctx, "x", shape)
    y = _img(ctx, "y", shape, 0.75, 3)
    k = 3
    ctx.assume_cmp(_local_var(x, k), ">=", 0.01)
    ctx.assume_cmp(_local_var(y, k), ">=", 0.01)
    f = lcc_loss if which == "lcc" else wlcc_loss
    kw = dict(kernel_size=k, epsilon=0.0, reduction="none")
    ctx.reach()
    ctx.eq(f(x, x, **kw), torch.zeros(1), f"{which}: zero for identical inputs")
    ctx.eq(f(x, y, **kw), f(y, x, **kw), f"{which}: symmetric")
    a = ctx.reals("a", 1.5, nice=(-4, 4))
    b = ctx.reals("b", -0.75, nice=(-4, 4))
    ctx.assume_cmp(a * a, ">=", 0.01)
    ctx.eq(f(a * x + b, y, **kw), f(x, y, **kw), f"{which}: invariant under a x + b")
    none = f(x, y, **kw)
    ctx.eq(f(x, y, kernel_size=k, epsilon=0.0, reduction="mean"), none.mean(), f"{which}: mean of none")
    if which == "wlcc":
        ctx.eq(none, lcc_loss(x, y, **kw), "wlcc without masks == lcc")
    m = _masks(shape)["1x1"]
    mf = m.float()
    if which == "lcc":
        ctx.eq(f(x, y, mask=m, **kw), none * mf, "lcc: mask weights the local scores")
        ctx.eq(f(x, y, mask=m, kernel_size=k, epsilon=0.0, reduction="mean"), (none * mf).sum() / mf.expand_as(none).sum(), "lcc: mean over the masked region")


def ob_overlap(ctx, shape):
    from deepali.losses.functional import dice_score, dice_loss, tversky_index, tversky_loss

    n = 1
    for m in shape:
        n *= m
    bx = ctx.binary("p", [float((i * 3) % 2 or i == 0) for i in range(n)]).reshape(shape)
    by = ctx.binary("q", [float((i * 5 + 1) % 2 or i == 0) for i in range(n)]).reshape(shape)
    N, C = shape[:2]
    # non-empty overlap in every (image, channel): the degenerate case is what epsilon exists for
    ctx.assume_cmp((bx * by).reshape(N, C, -1).sum(-1), ">=", 1.0)
    kw = dict(epsilon=0.0, reduction="none")
    ctx.reach()
    ctx.eq(dice_score(bx, bx, **kw), torch.ones(1), "dice: 1 for identical binary segmentations")
    ctx.eq(dice_loss(bx, bx, **kw), torch.zeros(1), "dice loss: 0 for identical binary segmentations")
    ctx.eq(dice_score(bx, by, **kw), dice_score(by, bx, **kw), "dice: symmetric")
    ctx.eq(tversky_index(bx, by, alpha=0.5, beta=0.5, **kw), dice_score(bx, by, **kw), "tversky(1/2, 1/2) == dice on binary inputs")
    ctx.eq(tversky_index(bx, by, **kw), dice_score(bx, by, **kw), "tversky default (alpha = beta = 1/2) == dice on binary inputs")
    ctx.eq(tversky_index(bx, bx, alpha=0.3, beta=0.7, **kw), torch.ones(1), "tversky: 1 for identical binary segmentations")
    ctx.eq(tversky_loss(bx, by, alpha=0.5, beta=0.5, **kw), dice_loss(bx, by, **kw), "tversky loss(1/2, 1/2) == dice loss on binary inputs")
    none = dice_loss(bx, by, **kw)
    ctx.eq(dice_loss(bx, by, epsilon=0.0, reduction="mean"), none.mean(), "dice loss: mean of none")
    ctx.eq(dice_loss(bx, by, epsilon=0.0, reduction="sum"), none.sum(), "dice loss: sum of none")


def ob_mi_symmetry(ctx, shape, normalized):
    from deepali.losses.functional import mi_loss

    x = _img(ctx, "x", shape, 0.25)
    y = _img(ctx, "y", shape, 0.25, 3)
    kw = dict(vmin=-2.0, vmax=2.0, num_bins=3, normalized=normalized)
    ctx.eq(mi_loss(x, y, **kw), mi_loss(y, x, **kw), f"{'nmi' if normalized else 'mi'}: symmetric")


def obligations(tier: str, seed: int):
    obs = []
    shapes = [(1, 1, 2, 2), (2, 2, 2, 2), (1, 2, 2, 2, 2)]
    if tier == "thorough":
        shapes += [(2, 1, 2, 3), (1, 2, 3, 2), (2, 2, 2, 2, 2)]
    for name in POINTWISE:
        for shape in shapes:
            obs.append((f"pointwise-{name}-{'x'.join(map(str, shape))}", ob_pointwise, dict(name=name, shape=shape)))
    obs.append(("modules-2x2x2x2", ob_modules, dict(shape=(2, 2, 2, 2))))
    for shape in ((1, 1, 2, 2), (2, 1, 2, 2), (1, 1, 2, 2, 2)):
        obs.append((f"ncc-{'x'.join(map(str, shape))}", ob_ncc, dict(shape=shape)))
        obs.append((f"ncc-mask-{'x'.join(map(str, shape))}", ob_ncc_mask, dict(shape=shape)))
    obs.append(("ncc-range-1x1x2x2", ob_ncc_range, dict(shape=(1, 1, 2, 2))))
    for which in ("lcc", "wlcc"):
        obs.append((f"{which}-1x1x1x3", ob_lcc, dict(shape=(1, 1, 1, 3), which=which)))
        if tier == "thorough":
            obs.append((f"{which}-1x1x2x3", ob_lcc, dict(shape=(1, 1, 2, 3), which=which)))
    for shape in ((1, 1, 2, 2), (2, 2, 2, 2), (1, 1, 1, 2, 2)) + (((1, 1, 2, 2, 2),) if tier == "thorough" else ()):
        obs.append((f"overlap-{'x'.join(map(str, shape))}", ob_overlap, dict(shape=shape)))
    for normalized in ((False,) if tier == "quick" else (False, True)):
        obs.append((f"mi-symmetry-{'nmi' if normalized else 'mi'}", ob_mi_symmetry, dict(shape=(1, 1, 1, 2), normalized=normalized)))
    return obs
