"""C10 - Flow fields mean the same displacement in every vector representation."""
from __future__ import annotations

import torch

from vlib import geom
from vlib.geom import AXES, sym_grid

PROPERTY = "C10"
EXPLANATION = (
    "Bounded symbolic execution + SMT. FlowFields / FlowField axes conversions are executed on batches with per-field symbolic grids "
    "(spacing, center, rotation symbolic; sizes concrete because they are tensor shapes) and free symbolic vectors; z3 decides inverse pairs, "
    "path independence and equality with Grid.transform_vectors for all values. For exp / sample / warp_image one cube-space symbolic field is "
    "expressed in each of the four representations, the operation is run through the real code, and the world-space results are compared as "
    "terms on the witness's interpolation cells (concrete rational grids, symbolic vectors and image values)."
)
ASSUMPTIONS = [
    "sampling operations (exp, sample, warp_image): grids are concrete rational (anisotropic, rotated), vectors / voxels symbolic, claim restricted to the interpolation cells of the witness (path condition)",
    "FlowField.sitk()/write: checked up to the tensor handed to the C boundary (world axes)",
]
BOUNDS = {"quick": dict(D=[2, 3], shapes=["3x2", "2x2x2", "3x3"], N=[1, 2], steps=[1]), "thorough": dict(D=[2, 3], shapes=["3x2", "2x2x2", "3x3", "3x3x3"], N=[1, 2], steps=[1, 2])}


def _vectors(ctx, name, N, D, shape, scale=1 / 16, bounded=False):
    n = N * D
    for m in shape:
        n *= m
    kw = dict(ge=-1, le=1) if bounded else {}
    return ctx.reals(name, [(((5 * i) % 13) - 6) * scale for i in range(n)], nice=(-1, 1), **kw).reshape((N, D) + tuple(shape))


def ob_axes(ctx, D, N, A, single):
    """axes(): inverse pairs, path independence, equal to Grid.transform_vectors (symbolic per-field grids)."""
    from deepali.data.flow import FlowFields, FlowField

    sizes = [3, 2, 2][:D]
    shape = tuple(reversed(sizes))
    grids, Ps = [], []
    for k in range(N):
        g, P = sym_grid(ctx, f"g{k}", D, ctx.seed, k, sizes=sizes, align_corners=bool((k + ctx.seed) % 2))
        grids.append(g)
        Ps.append(P)
    v = _vectors(ctx, "v", N, D, shape, 1 / 4)
    f = FlowField(v[0], grids[0], A) if single else FlowFields(v, grids, A)
    ctx.reach()
    for B in AXES:
        fb = f.axes(B)
        ctx.eq(torch.tensor([str(fb.axes()) == str(f.axes().__class__(B))]), torch.tensor([True]), f"axes({B}) records the new axes")
        tb = fb.tensor() if not single else fb.tensor().unsqueeze(0)
        for k in range(1 if single else N):
            ref = grids[k].transform_vectors(v[k].movedim(0, -1), A, B).movedim(-1, 0)
            ctx.eq(tb[k], ref, f"{A}->{B}: field {k} == grid.transform_vectors")
        ctx.eq(fb.axes(A).tensor(), f.tensor(), f"{A}->{B}->{A} is the identity")
        for C in AXES:
            if C != B:
                ctx.eq(fb.axes(C).tensor(), f.axes(C).tensor(), f"{A}->{B}->{C} == {A}->{C}")
    if not single:
        ctx.eq(torch.tensor([len(f.axes("world").grids())]), torch.tensor([N]), "axes() keeps one grid per field")


def _cube_field_in(ctx, grid, v_cube, A, a):
    """FlowFields holding the same displacement as cube-space vectors v_cube, expressed with respect to axes A."""
    from deepali.data.flow import FlowFields

    cube_axes = "cube_corners" if a else "cube"
    N = v_cube.shape[0]
    grids = grid if isinstance(grid, (list, tuple)) else [grid] * N
    data = torch.stack([g.transform_vectors(v_cube[k].movedim(0, -1), cube_axes, A).movedim(-1, 0) for k, g in enumerate(grids)])
    return FlowFields(data, list(grids), A)


def ob_exp(ctx, D, a, steps, N):
    shape = (3, 3) if D == 2 else (2, 3, 2)
    sizes = tuple(reversed(shape))
    grid = geom.concrete_grid(D, ctx.seed, 0, align_corners=a, sizes=sizes)
    v = _vectors(ctx, "v", N, D, shape, 1 / 64)
    ctx.witness_cells()
    cube_axes = "cube_corners" if a else "cube"
    ref = _cube_field_in(ctx, grid, v, cube_axes, a).exp(steps=steps).axes("world").tensor()
    for A in AXES:
        if A == cube_axes:
            continue
        f = _cube_field_in(ctx, grid, v, A, a)
        out = f.exp(steps=steps)
        ctx.eq(torch.tensor([str(out.axes())]) if False else torch.tensor([out.axes() is f.axes()]), torch.tensor([True]), f"exp keeps axes {A}")
        ctx.eq(out.axes("world").tensor(), ref, f"exp(steps={steps}) of {A}-vectors == exp of cube vectors (world space)")


def ob_sample(ctx, D, a, N, per_field_target):
    shape = (3, 3) if D == 2 else (2, 3, 2)
    sizes = tuple(reversed(shape))
    srcs = [geom.concrete_grid(D, ctx.seed, k, align_corners=a, sizes=sizes) for k in range(N)]
    tshape_sizes = tuple(reversed((2, 3) if D == 2 else (2, 2, 3)))
    tgts = [geom.concrete_grid(D, ctx.seed, k, align_corners=a, sizes=tshape_sizes).center(srcs[k].center() + 0.125) for k in range(N if per_field_target else 1)]
    v = _vectors(ctx, "v", N, D, shape, 1 / 8, bounded=(N > 1 and not per_field_target))
    cube_axes = "cube_corners" if a else "cube"
    fw = _cube_field_in(ctx, srcs, v, "world", a)
    arg = tgts if per_field_target else tgts[0]
    ref = fw.sample(arg, padding="border").tensor()  # world vectors are simply interpolated
    for A in AXES:
        if A == "world":
            continue
        f = _cube_field_in(ctx, srcs, v, A, a)
        out = f.sample(arg, padding="border")
        ctx.eq(torch.tensor(list(out.shape)), torch.tensor(list(ref.shape)), f"sample of {A}-vectors: shape (N fields)")
        ctx.eq(torch.tensor([len(out.grids())]), torch.tensor([N]), f"sample of {A}-vectors: one grid per field")
        if N > 1 and not per_field_target:
            # a field sampled on the grid of ANOTHER field: the interpolation weights of the relatively rotated geometry are
            # float-derived constants, identified with rationals only up to float32 resolution -> stated tolerance (|v| <= 1)
            ctx.close(out.axes("world").tensor(), ref, 1e-4, f"sample(grid) of {A}-vectors == sample of world vectors (within 1e-4)")
        else:
            ctx.eq(out.axes("world").tensor(), ref, f"sample(grid) of {A}-vectors == sample of world vectors")


def ob_warp(ctx, D, a, N):
    from deepali.data.image import ImageBatch

    shape = (3, 3) if D == 2 else (2, 3, 2)
    sizes = tuple(reversed(shape))
    grids = [geom.concrete_grid(D, ctx.seed, k, align_corners=a, sizes=sizes) for k in range(N)]
    v = _vectors(ctx, "v", N, D, shape, 1 / 16)
    n = N
    for m in shape:
        n *= m
    img = ctx.reals("I", [((7 * i) % 11) / 4 for i in range(n)], nice=(-8, 8)).reshape((N, 1) + shape)
    image = ImageBatch(img, grids)
    ctx.witness_cells()
    cube_axes = "cube_corners" if a else "cube"
    ref = _cube_field_in(ctx, grids, v, cube_axes, a).warp_image(image, padding="border").tensor()
    for A in AXES:
        if A == cube_axes:
            continue
        out = _cube_field_in(ctx, grids, v, A, a).warp_image(image, padding="border")
        ctx.eq(out.tensor(), ref, f"warp_image with {A}-vectors == with cube vectors")
    zero = _cube_field_in(ctx, grids, v * 0, cube_axes, a).warp_image(image, padding="border")
    ctx.eq(zero.tensor(), img, "warp_image with the zero field returns the image")


def ob_sitk(ctx, D, A):
    """FlowField.sitk() hands world-space vectors to the C boundary."""
    from deepali.data.flow import FlowField
    from deepali.data.image import Image

    sizes = [3, 2, 2][:D]
    shape = tuple(reversed(sizes))
    g, P = sym_grid(ctx, "g", D, ctx.seed, 0, sizes=sizes)
    v = _vectors(ctx, "v", 1, D, shape, 1 / 4)[0]
    f = FlowField(v, g, A)
    captured = {}
    orig = Image.sitk

    def rec(self):
        captured["data"] = self.tensor()
        captured["axes"] = getattr(self, "_axes", None)
        return None

    Image.sitk = rec
    try:
        f.sitk()
    finally:
        Image.sitk = orig
    ref = g.transform_vectors(v.movedim(0, -1), A, "world").movedim(-1, 0)
    ctx.eq(captured["data"], ref, f"FlowField({A}).sitk() converts to world vectors")


def obligations(tier: str, seed: int):
    obs = []
    for D in (2, 3):
        for A in AXES:
            obs.append((f"axes-D{D}-N2-{A}", ob_axes, dict(D=D, N=2, A=A, single=False)))
            obs.append((f"axes-D{D}-single-{A}", ob_axes, dict(D=D, N=1, A=A, single=True)))
            obs.append((f"sitk-D{D}-{A}", ob_sitk, dict(D=D, A=A)))
        for a in (True, False):
            obs.append((f"exp-D{D}-ac{int(a)}-k1", ob_exp, dict(D=D, a=a, steps=1, N=1)))
            if tier == "thorough":
                obs.append((f"exp-D{D}-ac{int(a)}-k2-N2", ob_exp, dict(D=D, a=a, steps=2, N=2)))
            obs.append((f"sample-D{D}-ac{int(a)}-N1", ob_sample, dict(D=D, a=a, N=1, per_field_target=False)))
            obs.append((f"sample-D{D}-ac{int(a)}-N2-per-field", ob_sample, dict(D=D, a=a, N=2, per_field_target=True)))
            obs.append((f"sample-D{D}-ac{int(a)}-N2-shared", ob_sample, dict(D=D, a=a, N=2, per_field_target=False)))
            obs.append((f"warp-D{D}-ac{int(a)}-N{1 + int(a)}", ob_warp, dict(D=D, a=a, N=1 + int(a))))
    return obs
