"""C11 - Scaling-and-squaring equals the closed form for affine velocity fields."""
from __future__ import annotations

import torch

from vlib import geom

PROPERTY = "C11"
EXPLANATION = (
    "Bounded symbolic execution + SMT with lemma chaining. expv / ExpFlow are executed through the real warp_image -> F.grid_sample path "
    "on an affine velocity field v(x) = Hx + t with symbolic generator (H, t) in normalised coordinates. Per grid_sample output the engine "
    "asks z3 whether every candidate interpolation cell yields the same polynomial (pure polynomial lemmas); if so the case split vanishes "
    "and the result after k squaring steps is compared, again by z3, with the displacement of the affine map (I + H/2^k)^(2^k) computed in the "
    "harness. For free symbolic fields the inverse flag / negated scale / negated field are compared as terms on the witness's interpolation cells."
)
ASSUMPTIONS = [
    "precondition of the affine claims: every intermediate sample position lies inside the closed hull of the sample centres (recorded as path assumptions; witness chosen diagonally dominant with negative diagonal)",
    "convergence to the matrix exponential and the second-order bound for smooth non-affine fields are not decided (outside the reach of the solver)",
    "steps <= 2 (quick) / <= 3 in 2-D (thorough); grid shapes 3^D and one non-cubic shape",
]
BOUNDS = {"quick": dict(D=[2, 3], shapes=["3x3", "3x4", "3x3x3"], steps=[0, 1, 2], scales=[1, -1, 0.5]), "thorough": dict(D=[2, 3], shapes=["3x3", "3x4", "4x5", "3x3x3", "2x3x4"], steps=[0, 1, 2, 3], scales=[1, -1, 0.5, 2])}

H_WIT = {2: [[-0.25, 0.0625], [0.03125, -0.25]], 3: [[-0.25, 0.0625, 0.0], [0.03125, -0.25, 0.0625], [0.0, -0.0625, -0.1875]]}
T_WIT = {2: [0.0, 0.0], 3: [0.0, 0.0, 0.0]}  # witness keeps the sample hull invariant; t itself is symbolic


def _affine_field(ctx, D, shape, a, sign=1):
    from deepali.core.grid import Grid

    H = ctx.reals("H", (torch.tensor(H_WIT[D]) * sign).tolist(), nice=(-0.5, 0.5))
    t = ctx.reals("t", (torch.tensor(T_WIT[D]) * sign).tolist(), nice=(-0.25, 0.25))
    x = Grid(shape=shape, align_corners=a).coords(align_corners=a)  # (..., X, D)
    v = x @ H.t() + t
    return H, t, x, v.movedim(-1, 0).unsqueeze(0)  # (1, D, ..., X)


def _closed_form(H, t, x, steps, scale):
    D = H.shape[0]
    M = torch.eye(D) + H * (scale / 2 ** steps)
    b = t * (scale / 2 ** steps)
    for _ in range(steps):
        M, b = M @ M, M @ b + b
    y = x @ M.t() + b
    return (y - x).movedim(-1, 0).unsqueeze(0)


def ob_affine(ctx, D, shape, a, steps, scale, padding, via):
    from deepali.core.flow import expv
    from deepali.modules.flow import ExpFlow

    H, t, x, v = _affine_field(ctx, D, shape, a, sign=1 if scale > 0 else -1)
    if via == "expv":
        u = expv(v, scale=scale, steps=steps, padding=padding, align_corners=a)
    elif via == "module":
        u = ExpFlow(scale=scale, steps=steps, align_corners=a)(v)
    elif via == "module-inverse":
        u = ExpFlow(scale=-scale, steps=steps, align_corners=a).inverse()(v)
    else:
        u = ExpFlow(scale=-scale, steps=steps, align_corners=a)(v, inverse=True)
    ctx.reach()
    ctx.eq(u, _closed_form(H, t, x, steps, scale), f"expv(steps={steps}, scale={scale}, align_corners={a}) == displacement of (I + sH/2^k)^(2^k)")
    if steps >= 1 and via == "expv":
        w = expv(v, scale=scale, steps=steps, padding=padding, align_corners=not a)
        ctx.differ(w, u, "other align_corners flag must give a different field")


def ob_free(ctx, D, shape, a, steps):
    """Free symbolic field: steps=0 returns scale*v; inverse flag == negated scale == negated field."""
    from deepali.core.flow import expv

    n = 1
    for m in shape:
        n *= m
    v = ctx.reals("v", [(((5 * i) % 11) - 5) / 64 for i in range(D * n)], nice=(-0.25, 0.25)).reshape((1, D) + tuple(shape))
    ctx.eq(expv(v, scale=0.5, steps=0, align_corners=a), v * 0.5, "steps=0 returns the scaled input")
    ctx.eq(expv(v, steps=0, align_corners=a), v, "steps=0, scale=None returns the input")
    ctx.witness_cells()
    u_inv = expv(v, steps=steps, align_corners=a, inverse=True)
    u_neg = expv(v, scale=-1, steps=steps, align_corners=a)
    u_fld = expv(-v, steps=steps, align_corners=a)
    ctx.eq(u_inv, u_neg, "inverse=True == scale=-1")
    ctx.eq(u_inv, u_fld, "inverse=True == negated field")
    u2 = expv(v, scale=-0.5, steps=steps, align_corners=a)
    ctx.eq(expv(v, scale=0.5, steps=steps, align_corners=a, inverse=True), u2, "inverse=True with scale=0.5 == scale=-0.5")
    # batch: two fields exponentiated together equal each one alone
    w = torch.cat([v, -v * 0.5], dim=0)
    uu = expv(w, steps=steps, align_corners=a)
    ctx.eq(uu[0:1], expv(v, steps=steps, align_corners=a), "batch item 0 == single")
    ctx.eq(uu[1:2], expv(-v * 0.5, steps=steps, align_corners=a), "batch item 1 == single")


def obligations(tier: str, seed: int):
    obs = []
    shapes = {2: [(3, 3), (3, 4)], 3: [(3, 3, 3)]}
    steps_ = {2: [1, 2], 3: [1, 2]}
    if tier == "thorough":
        shapes = {2: [(3, 3), (3, 4), (4, 5)], 3: [(3, 3, 3), (2, 3, 4)]}
        steps_ = {2: [1, 2, 3], 3: [1, 2]}
    for D in (2, 3):
        for shape in shapes[D]:
            sh = "x".join(map(str, shape))
            for a in (True, False):
                for steps in steps_[D]:
                    for scale in ((1, -1, 0.5) if tier == "quick" else (1, -1, 0.5, 2)):
                        if tier == "quick" and D == 3 and (scale != 1 or steps > 1):
                            continue
                        pad = "border" if (steps + int(a)) % 2 == 0 else "zeros"
                        obs.append((f"affine-D{D}-{sh}-ac{int(a)}-k{steps}-s{scale}-{pad}", ob_affine, dict(D=D, shape=shape, a=a, steps=steps, scale=scale, padding=pad, via="expv")))
                obs.append((f"affine-D{D}-{sh}-ac{int(a)}-k0", ob_affine, dict(D=D, shape=shape, a=a, steps=0, scale=0.5, padding="border", via="expv")))
            for via in ("module", "module-inverse", "module-inverse-flag"):
                obs.append((f"{via}-D{D}-{sh}", ob_affine, dict(D=D, shape=shape, a=bool((len(via) + seed) % 2), steps=1, scale=-1 if "inverse" in via else 0.5, padding="border", via=via)))
            obs.append((f"module-steps0-D{D}-{sh}", ob_affine, dict(D=D, shape=shape, a=True, steps=0, scale=0.5, padding="border", via="module")))
        for a in (True, False):
            shape = shapes[D][0]
            obs.append((f"free-D{D}-ac{int(a)}-k1", ob_free, dict(D=D, shape=shape, a=a, steps=1)))
            if D == 2:
                obs.append((f"free-D{D}-ac{int(a)}-k2", ob_free, dict(D=D, shape=shape, a=a, steps=2)))
    # FlowFields.exp() wrapper: the same exponential whatever representation the vectors are given in (shared with C10)
    from checks.c10 import ob_exp

    for D in (2, 3):
        obs.append((f"flowfields-exp-axes-D{D}", ob_exp, dict(D=D, a=bool((D + seed) % 2), steps=1, N=1)))
    return obs
