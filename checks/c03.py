"""C03 - Derived grids (resize, pyramid, crop, pad, pool) keep their place in the world."""
from __future__ import annotations

from fractions import Fraction

import torch

from vlib import geom
from vlib.geom import sym_grid

PROPERTY = "C03"
TECHNIQUE = 'concolic ATen-level symbolic execution + z3 (QF_NRA/LIA, integer sizes symbolic); internal allclose assertions of Grid._resize additionally re-interpreted over IEEE binary32 (QF_FP: z3, then the cvc5 binary on the same SMT-LIB text), models replayed in float32'
EXPLANATION = (
    "Bounded symbolic execution + SMT. Grid derivation methods are executed on grids with symbolic spacing, center and rotation; sizes are "
    "integer variables where the method only uses the size tensor (resize, reshape, downsample, upsample) and enumerated otherwise. "
    "z3 decides for all values that center/orientation and corner positions or extent are preserved, that every retained sample keeps its "
    "world position (new.index_to_world(j) == old.index_to_world(a*j + b) for a symbolic index j), and that the internal allclose "
    "assertions of Grid._resize cannot fire over the reals (negated branch infeasible); a float32 bit-precise query (QF_FP) looks for "
    "inputs on which rounding alone fires them."
)
ASSUMPTIONS = [
    "index-changing operations use enumerated concrete sizes, margins, kernel sizes and ROI boxes (the code concretises Grid.size()); geometry stays symbolic",
    "an exception raised on a satisfiable path is reported as a violation ('operations succeed for every valid grid')",
    "fp obligations (fp-downsample-*): terms rebuilt without re-association (RAW mode) and interpreted over IEEE binary32, round-to-nearest-even per scalar operation in program order, D = 1 (no matrix accumulation), concrete size, spacing in [0.25, 4], centre in [-16, 16]; z3 QF_FP (30 s) then the cvc5 binary on the same SMT-LIB text; a sat model is reported only if the real code raises the AssertionError in float32",
]
BOUNDS = {
    "quick": dict(D=[2, 3], sizes="int vars 2..4096 (resize/down/up); {2..9} otherwise", levels=[1, 2], chains=2, fp="D=1, size 5, 1 level"),
    "thorough": dict(D=[2, 3], sizes="int vars 2..4096; {2..17} otherwise", levels=[1, 2, 3], chains=3, fp="D=1, (size, levels) in {(5,1),(6,2),(7,1),(12,2),(17,3)}"),
}


def _j(ctx, D):
    return ctx.reals("j", [[1.0, 2.0, 0.5][:D], [0.0, 3.0, 1.0][:D]], nice=(-16, 16))


def _same_frame(ctx, new, old, what):
    ctx.eq(new.center(), old.center(), f"{what}: center unchanged")
    ctx.eq(new.direction(), old.direction(), f"{what}: direction unchanged")


# ------------------------------------------------------------------ resize family (symbolic integer sizes)
def ob_resize(ctx, D, a, how, default_flag):
    g, P = sym_grid(ctx, "g", D, ctx.seed, 0, align_corners=a if default_flag else (not a))
    m = ctx.ints("m", [k + 2 for k in geom.pick(geom.SIZES, ctx.seed, 1)[:D]], ge=2, le=4096, dtype=torch.int64)
    kw = {} if default_flag else dict(align_corners=a)
    new = g.resize(m, **kw) if how == "resize" else g.reshape(m.flip(0), **kw)
    ctx.reach()
    _same_frame(ctx, new, g, how)
    ctx.eq(new.size_tensor(), m, f"{how}: size")
    n = P["n"]
    if a:
        ctx.eq(new.origin(), g.origin(), f"{how}(align_corners=True): origin unchanged")
        ctx.eq(new.index_to_world((m - 1).reshape(1, D), decimals=None), g.index_to_world((n - 1).reshape(1, D), decimals=None), f"{how}(True): last sample unchanged")
        ctx.eq(new.spacing() * (m - 1), g.spacing() * (n - 1), f"{how}(True): corner-to-corner length unchanged")
    else:
        ctx.eq(new.extent(), g.extent(), f"{how}(align_corners=False): extent unchanged")
        lo = g.transform_points(-torch.ones(1, D), "cube", "world", decimals=None)
        ctx.eq(new.transform_points(-torch.ones(1, D), "cube", "world", decimals=None), lo, f"{how}(False): lower border unchanged")
    ax = "cube_corners" if a else "cube"
    x = ctx.reals("x", [[0.5, -0.25, 0.75][:D]], nice=(-2, 2))
    ctx.eq(new.align_corners(a).transform_points(x, ax, "world", decimals=None), g.align_corners(a).transform_points(x, ax, "world", decimals=None), f"{how}: normalised coordinates ({ax}) keep their world position")


def ob_down_up(ctx, D, a, levels, dims):
    """downsample / upsample with symbolic integer sizes; down then up returns the original grid (no axis clamped)."""
    g, P = sym_grid(ctx, "g", D, ctx.seed, 0, align_corners=a, min_size=2 ** (levels + 1))
    n = P["n"]
    kw = dict(dims=dims) if dims else {}
    d = g.downsample(levels, **kw)
    ctx.reach()
    _same_frame(ctx, d, g, "downsample")
    if a:
        ctx.eq(d.origin(), g.origin(), "downsample(True): origin unchanged")
        ctx.eq(d.cube_extent(), g.cube_extent(), "downsample(True): cube extent unchanged")
    else:
        ctx.eq(d.extent(), g.extent(), "downsample(False): extent unchanged")
        ctx.eq(d.cube_extent(), g.cube_extent(), "downsample(False): cube extent unchanged")
    u = d.upsample(levels, **kw)
    ctx.eq(u.size_tensor(), g.size_tensor(), "down->up: size restored")
    ctx.eq(u.spacing(), g.spacing(), "down->up: spacing restored")
    ctx.eq(u.center(), g.center(), "down->up: center restored")
    ctx.eq(u.origin(), g.origin(), "down->up: origin restored")
    up = g.upsample(levels, **kw)
    _same_frame(ctx, up, g, "upsample")
    mask = torch.tensor([1.0 if (not dims or k in dims) else 0.0 for k in range(D)])
    ctx.eq(up.size_tensor(), n * (mask * (2 ** levels - 1) + 1), "upsample: size doubled per level on selected dims")
    if a:
        ctx.eq(up.origin(), g.origin(), "upsample(True): origin unchanged")
    else:
        ctx.eq(up.extent(), g.extent(), "upsample(False): extent unchanged")
    ctx.eq(up.downsample(levels, **kw).spacing(), g.spacing(), "up->down: spacing restored")
    # stepwise equals all at once
    if levels == 2:
        ctx.eq(g.downsample().downsample().spacing(), d.spacing(), "downsample twice == downsample(2): spacing")
        ctx.eq(g.downsample().downsample().size_tensor(), d.size_tensor(), "downsample twice == downsample(2): size")
        ctx.eq(g.downsample().downsample().upsample(2).size_tensor(), g.size_tensor(), "down,down,up(2): size restored")


def ob_down_clamped(ctx, D, a):
    """An axis that would fall below min_size is left unchanged (size and spacing)."""
    g, P = sym_grid(ctx, "g", D, ctx.seed, 0, sizes=[3, 16, 2][:D], align_corners=a)
    d = g.downsample(1, min_size=2)
    ctx.eq(d.size_tensor()[0], 3.0, "clamped axis keeps its size")
    ctx.eq(d.spacing()[0], g.spacing()[0], "clamped axis keeps its spacing")
    ctx.eq(d.size_tensor()[1], 8.0, "other axis halves")
    _same_frame(ctx, d, g, "downsample(min_size)")
    if a:
        ctx.eq(d.origin(), g.origin(), "downsample(min_size, True): origin unchanged")


def ob_resample(ctx, D, a, which):
    g, P = sym_grid(ctx, "g", D, ctx.seed, 0, sizes=geom.pick(geom.SIZES, ctx.seed)[:D], align_corners=a)
    if which == "tensor":
        t = ctx.reals("t", [0.5, 1.0, 0.75][:D], gt=0, nice=(0.125, 8))
        new = g.resample(t)
    else:
        new = g.resample(which)
        t = (g.spacing().min() if which == "min" else g.spacing().max()).expand(D)
    _same_frame(ctx, new, g, f"resample({which})")
    if which == "tensor":
        ctx.eq(new.spacing(), t, "resample: spacing is the requested one")
    else:
        # Grid.resample returns the grid itself when the requested spacing is allclose to the current one (isotropic
        # grids with 'min' / 'max'): on that path the spacing equals the requested one only up to that tolerance
        ctx.true((new.spacing() - t).abs() <= 2e-5 * t + 1e-7, "resample: spacing is the requested one (up to the allclose tolerance of the early return)")
    ctx.true(new.extent() >= g.extent() * (1 - 2e-5) - 1e-7, "resample: extent does not shrink")
    if which == "tensor":
        ctx.true(new.extent() < g.extent() + t, "resample: extent grows by less than one spacing")


def ob_resample_chain(ctx, D, a, sizes, levels):
    """resample() of a grid whose internal size is fractional (the result of downsample on a size not divisible by 2^levels)
    covers the extent of that grid, as for any other grid."""
    g, P = sym_grid(ctx, "g", D, ctx.seed, 0, sizes=sizes, align_corners=a)
    h = g.downsample(levels)
    new = h.resample(g.spacing())
    _same_frame(ctx, new, h, f"downsample({levels}).resample(original spacing)")
    ctx.eq(new.spacing(), g.spacing(), "resample after downsample: spacing is the requested one")
    ctx.true(new.extent() >= h.extent(), "resample after downsample: extent of the downsampled grid is covered")
    ctx.true(new.extent() < h.extent() + g.spacing(), "resample after downsample: extent grows by less than one spacing")
    again = new.resample(h.spacing())
    ctx.true(again.extent() >= new.extent(), "resample of a resampled grid: extent does not shrink")


def ob_pyramid(ctx, D, a, sizes, levels, dims=None, min_size=0):
    g, P = sym_grid(ctx, "g", D, ctx.seed, 0, sizes=sizes, align_corners=a)
    kw = dict(dims=dims) if dims else {}
    pyr = g.pyramid(levels, min_size=min_size, **kw)
    ctx.eq(torch.tensor([len(pyr)]), torch.tensor([levels + 1]), "pyramid: levels + 1 grids")
    base = pyr[0]
    for lvl in range(levels + 1):
        h = pyr[lvl]
        _same_frame(ctx, h, g, f"pyramid level {lvl}")
        ctx.eq(h.cube_extent(), base.cube_extent(), f"pyramid level {lvl}: same cube extent as level 0")
        if a:
            ctx.eq(h.origin(), g.origin(), f"pyramid level {lvl}: origin unchanged (align_corners)")
        if lvl > 0 and min_size == 0:
            prev = pyr[lvl - 1].size()
            sel = [k for k in range(D) if (not dims or k in dims)]
            ctx.eq(torch.tensor([h.size()[k] for k in sel]), torch.tensor([(prev[k] + 1) // 2 for k in sel]), f"pyramid level {lvl}: size = (prev + 1) // 2")
        ctx.true(torch.tensor([bool(h.same_domain_as(base))]), f"pyramid level {lvl}: same_domain_as(level 0)")
    if not a:
        ctx.eq(base.extent(), g.extent(), "pyramid(False): level 0 keeps the extent of the grid")
    if a and all((n - 1) % (2 ** levels) == 0 for n in sizes) and not dims:
        ctx.eq(base.spacing(), g.spacing(), "pyramid(True): level 0 is the grid itself when (n-1) divisible")


# ------------------------------------------------------------------ index-only derivations (concrete sizes, symbolic geometry)
def _apply(g, op, sizes):
    """Returns (new_grid, scale a, offset b, expected size) with old_index = a * j + b (per axis x,y,z)."""
    D = len(sizes)
    kind = op[0]
    if kind == "crop" or kind == "pad":
        num = op[1]  # (x_lo, x_hi, y_lo, y_hi, ...)
        sgn = 1 if kind == "crop" else -1
        new = getattr(g, kind)(num=num)
        lo = [sgn * num[2 * k] for k in range(D)]
        exp = [max(sizes[k] - sgn * (num[2 * k] + num[2 * k + 1]), 1) for k in range(D)]
        return new, [1] * D, lo, exp
    if kind == "crop_margin" or kind == "pad_margin":
        mg = op[1]
        sgn = 1 if kind == "crop_margin" else -1
        f = g.crop if sgn == 1 else g.pad
        new = f(margin=mg) if op[2] == "kw" else f(*mg)
        mg_ = [mg] * D if isinstance(mg, int) else list(mg)
        return new, [1] * D, [sgn * m for m in mg_], [max(sizes[k] - 2 * sgn * mg_[k], 1) for k in range(D)]
    if kind == "narrow":
        _, dim, start, length = op
        new = g.narrow(dim, start, length)
        return new, [1] * D, [start if k == dim else 0 for k in range(D)], [length if k == dim else sizes[k] for k in range(D)]
    if kind == "roi":
        _, start, size = op
        new = g.region_of_interest(start, size)
        st = [start] * D if isinstance(start, int) else list(start)
        sz = [size] * D if isinstance(size, int) else list(size)
        return new, [1] * D, st, sz
    if kind == "center_crop":
        tgt = op[1]
        new = g.center_crop(tgt)
        t = [tgt] * D if isinstance(tgt, int) else list(tgt)
        exp = [min(sizes[k], t[k]) for k in range(D)]
        return new, [1] * D, [(sizes[k] - exp[k]) // 2 for k in range(D)], exp
    if kind == "center_pad":
        tgt = op[1]
        new = g.center_pad(tgt)
        t = [tgt] * D if isinstance(tgt, int) else list(tgt)
        exp = [max(sizes[k], t[k]) for k in range(D)]
        return new, [1] * D, [-((exp[k] - sizes[k]) // 2) for k in range(D)], exp
    if kind == "pool":
        _, ks, ceil_mode = op
        new = g.avg_pool(ks, ceil_mode=ceil_mode) if op[0] == "pool" else None
        k_ = [ks] * D if isinstance(ks, int) else list(ks)
        exp = [(-(-sizes[k] // k_[k])) if ceil_mode else sizes[k] // k_[k] for k in range(D)]
        return new, k_, [Fraction(k_[k] - 1, 2) for k in range(D)], exp
    raise ValueError(op)


def ob_index_chain(ctx, D, a, sizes, ops):
    g, P = sym_grid(ctx, "g", D, ctx.seed, 0, sizes=sizes, align_corners=a)
    j = _j(ctx, D)
    cur = g
    cur_sizes = list(sizes)
    A = [Fraction(1)] * D
    Bo = [Fraction(0)] * D
    label = []
    for op in ops:
        new, sc, off, exp = _apply(cur, op, cur_sizes)
        label.append(op[0])
        # compose: old = A * (sc * j + off) + Bo
        Bo = [A[k] * Fraction(off[k]) + Bo[k] for k in range(D)]
        A = [A[k] * sc[k] for k in range(D)]
        cur, cur_sizes = new, exp
        what = "+".join(label)
        ctx.eq(torch.tensor(list(cur.size())), torch.tensor(cur_sizes), f"{what}: size")
        ctx.eq(cur.direction(), g.direction(), f"{what}: direction kept")
        ctx.eq(cur.spacing(), g.spacing() * torch.tensor([float(x) for x in A]), f"{what}: spacing kept (times pooling stride)")
        old_idx = j * torch.tensor([float(x) for x in A]) + torch.tensor([float(x) for x in Bo])
        ctx.eq(cur.index_to_world(j, decimals=None), g.index_to_world(old_idx, decimals=None), f"{what}: retained samples keep their world position")
        ctx.eq(torch.tensor([cur.align_corners()]), torch.tensor([a]), f"{what}: align_corners flag kept")


def ob_cube_grid(ctx, D, a):
    from deepali.core.cube import Cube

    e = ctx.reals("e", geom.pick(geom.SPACINGS, ctx.seed, 2)[:D], gt=0, nice=(0.25, 16))
    c = ctx.reals("c", geom.pick(geom.CENTERS, ctx.seed)[:D], nice=(-16, 16))
    R = geom.sym_rotation(ctx, "r", D, ctx.seed)
    cube = Cube(extent=e, center=c, direction=R)
    sizes = geom.pick(geom.SIZES, ctx.seed)[:D]
    g = cube.grid(size=tuple(sizes), align_corners=a)
    ctx.eq(g.cube_extent(), e, "Cube.grid: cube extent == cube.extent")
    ctx.eq(g.center(), c, "Cube.grid: center")
    ctx.eq(g.direction(), R, "Cube.grid: direction")
    ctx.eq(g.cube().extent(), e, "Cube.grid().cube() round trip")
    g2 = cube.grid(shape=tuple(reversed(sizes)), align_corners=a)
    ctx.eq(g2.spacing(), g.spacing(), "Cube.grid(shape=) == Cube.grid(size=)")


def ob_fp_downsample(ctx, size, levels, a):
    """Float32 mode: the internal `assert allclose(origin / extent)` of Grid._resize cannot fire from rounding alone.
    1-D grid of concrete size, float32 centre and spacing symbolic; the recorded tolerance test is re-interpreted over
    IEEE binary32 (QF_FP). A model is reported only if the real code raises the AssertionError in float32."""
    import symtorch.terms as tm
    from deepali.core.grid import Grid

    tm.set_raw(True)
    try:
        s = ctx.reals("s", [0.75], ge=0.25, le=4.0, nice=(0.25, 4.0))
        c = ctx.reals("c", [-3.5], ge=-16.0, le=16.0, nice=(-16.0, 16.0))
        g = Grid(size=(size,), spacing=s, center=c, align_corners=a)
        h = g.downsample(levels)
        ctx.reach()
        ctx.fp_asserts("core/grid.py:_resize", f"downsample({levels}) of a 1-D grid of size {size}: the internal allclose assertion holds in float32", timeout_s=150.0 if ctx.tier == "quick" else 600.0)
    finally:
        tm.set_raw(False)


def obligations(tier: str, seed: int):
    obs = []
    for D in (2, 3):
        for a in (True, False):
            for how in ("resize", "reshape"):
                obs.append((f"{how}-D{D}-ac{int(a)}-default", ob_resize, dict(D=D, a=a, how=how, default_flag=True)))
                obs.append((f"{how}-D{D}-ac{int(a)}-explicit", ob_resize, dict(D=D, a=a, how=how, default_flag=False)))
            for levels in ((1, 2) if tier == "quick" else (1, 2, 3)):
                obs.append((f"down-up-D{D}-ac{int(a)}-L{levels}", ob_down_up, dict(D=D, a=a, levels=levels, dims=None)))
            obs.append((f"down-up-D{D}-ac{int(a)}-L1-dims", ob_down_up, dict(D=D, a=a, levels=1, dims=(0, D - 1) if D == 3 else (1,))))
            obs.append((f"down-clamped-D{D}-ac{int(a)}", ob_down_clamped, dict(D=D, a=a)))
            for which in ("tensor", "min", "max"):
                obs.append((f"resample-{which}-D{D}-ac{int(a)}", ob_resample, dict(D=D, a=a, which=which)))
            obs.append((f"resample-chain-D{D}-ac{int(a)}", ob_resample_chain, dict(D=D, a=a, sizes=(9, 13, 7)[:D], levels=2)))
            pyr_sizes = {2: [(9, 17), (10, 7), (5, 6)], 3: [(9, 5, 17), (8, 7, 5)]}[D]
            if tier == "thorough":
                pyr_sizes = {2: [(9, 17), (10, 7), (5, 6), (33, 12), (16, 16), (11, 13)], 3: [(9, 5, 17), (8, 7, 5), (12, 9, 6), (17, 17, 9)]}[D]
            for sz in pyr_sizes:
                for levels in ((1, 2) if tier == "quick" else (1, 2, 3)):
                    if min(sz) / 2 ** levels >= 2:
                        obs.append((f"pyramid-D{D}-ac{int(a)}-{'x'.join(map(str, sz))}-L{levels}", ob_pyramid, dict(D=D, a=a, sizes=sz, levels=levels)))
            obs.append((f"pyramid-D{D}-ac{int(a)}-dims", ob_pyramid, dict(D=D, a=a, sizes=pyr_sizes[0], levels=1, dims=(0,))))
            obs.append((f"pyramid-D{D}-ac{int(a)}-minsize", ob_pyramid, dict(D=D, a=a, sizes=pyr_sizes[1], levels=2, min_size=4)))
            obs.append((f"cube-grid-D{D}-ac{int(a)}", ob_cube_grid, dict(D=D, a=a)))
        # index-only operations and chains
        sz = {2: (7, 6), 3: (7, 6, 5)}[D]
        num_a = (1, 2, 0, 1, 2, 0)[: 2 * D]
        num_b = (-1, 2, 1, -2, 0, 1)[: 2 * D]
        singles = [
            ("crop", num_a), ("pad", num_a), ("crop", num_b), ("pad", num_b),
            ("crop_margin", (1, 2, 0)[:D], "kw"), ("pad_margin", (2, 0, 1)[:D], "args"), ("crop_margin", 1, "kw"), ("pad_margin", 2, "kw"),
            ("narrow", 0, 2, 3), ("narrow", D - 1, 1, 2), ("roi", (1, 2, 0)[:D], (3, 2, 4)[:D]), ("roi", 1, 3),
            ("center_crop", (4, 3, 2)[:D]), ("center_crop", 5), ("center_pad", (10, 9, 6)[:D]), ("center_pad", 8),
            ("pool", 2, False), ("pool", 3, True), ("pool", (2, 3, 1)[:D], False),
        ]
        for k, op in enumerate(singles):
            obs.append((f"index-D{D}-{op[0]}-{k}", ob_index_chain, dict(D=D, a=bool((k + seed) % 2), sizes=sz, ops=[op])))
        chains = [
            [("crop", num_a), ("pad", num_b)],
            [("pad", num_a), ("pool", 2, False)],
            [("center_pad", 9), ("narrow", 0, 1, 5)],
            [("roi", 1, 4), ("center_crop", 3)],
            [("pool", 2, False), ("crop", num_a)],
        ]
        if tier == "thorough":
            chains += [
                [("crop", num_a), ("pad", num_b), ("pool", 2, True)],
                [("pad", num_b), ("center_crop", 5), ("narrow", D - 1, 1, 3)],
                [("pool", 2, False), ("pad_margin", 1, "kw"), ("roi", 1, 2)],
                [("center_pad", 11), ("pool", 3, True), ("crop_margin", 1, "kw")],
            ]
        for k, ch in enumerate(chains):
            obs.append((f"chain-D{D}-{k}-" + "+".join(o[0] for o in ch), ob_index_chain, dict(D=D, a=bool(k % 2), sizes=sz, ops=ch)))
    # float32 re-interpretation of the internal assertions of Grid._resize (QF_FP)
    for size, levels in (((5, 1),) if tier == "quick" else ((5, 1), (6, 2), (7, 1), (12, 2), (17, 3))):
        for a in (True, False):
            obs.append((f"fp-downsample-{size}-L{levels}-ac{int(a)}", ob_fp_downsample, dict(size=size, levels=levels, a=a)))
    return obs
