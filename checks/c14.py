"""C14 - Cubic B-spline evaluation, derivatives and subdivision are exact."""
from __future__ import annotations

from fractions import Fraction

import torch

PROPERTY = "C14"
EXPLANATION = (
    "Bounded symbolic execution + SMT. evaluate_cubic_bspline (both algorithms, all derivative orders), subdivide_cubic_bspline and the "
    "free-form deformation models are executed with free symbolic coefficient tensors; every output sample is compared by z3 with the analytic "
    "cubic B-spline sum_k c_k B^(d)(1 + j/s - k) whose basis polynomials are written in the harness (exact rationals), which yields partition of "
    "unity, derivative weights summing to zero and linear precision as corollaries that are also asserted directly. "
    "cubic_bspline_value is executed on a symbolic argument (all branches explored) and the control-grid size function on a symbolic integer size."
)
ASSUMPTIONS = [
    "coefficient tensors are free symbols; sizes and strides are enumerated (tensor shapes): D in {1,2,3}, control grids up to 6 per axis, strides 1..5 (thorough 1..16 in 1-D)",
    "float constants of the weight tables are identified with the simplest rational within float32 resolution (e.g. 0.16666667 -> 1/6)",
]
BOUNDS = {"quick": dict(D=[1, 2, 3], strides="1..5", sizes="<= 6 control points per axis", derivatives="0..3"), "thorough": dict(D=[1, 2, 3], strides="1..16 (1-D), 1..5 (2-D/3-D)", sizes="<= 7", derivatives="0..3")}


def B(t, d=0):
    """Analytic cubic B-spline basis (and derivatives), written independently of deepali."""
    a = t.abs()
    if d == 0:
        inner = 2 / 3 - a * a + a * a * a / 2
        outer = (2 - a) ** 3 / 6
    elif d == 1:
        inner = -2 * t + 1.5 * t * a
        outer = -torch.sign(t) * (2 - a) ** 2 / 2
    elif d == 2:
        inner = 3 * a - 2
        outer = 2 - a
    elif d == 3:
        # piecewise constant, right-continuous: [-2,-1): 1, [-1,0): -3, [0,1): 3, [1,2): -1
        z, o = torch.zeros_like(t), torch.ones_like(t)
        return torch.where(t < -2, z, torch.where(t < -1, o, torch.where(t < 0, -3 * o, torch.where(t < 1, 3 * o, torch.where(t < 2, -o, z)))))
    else:
        return torch.zeros_like(t)
    return torch.where(a < 1, inner, torch.where(a < 2, outer, torch.zeros_like(t)))


def _ref_eval_1d(c, s, d, axis):
    """S^(d)(1 + j/s) along tensor axis `axis` of coefficient tensor c, j = 0 .. (n-3)*s - 1."""
    n = c.shape[axis]
    J = (n - 3) * s
    t = 1 + torch.arange(J, dtype=torch.float64) / s  # exact dyadic/rational positions handled by snapping
    k = torch.arange(n, dtype=torch.float64)
    W = B(t.reshape(-1, 1) - k.reshape(1, -1), d).float()  # (J, n) concrete weights
    cm = c.movedim(axis, -1)
    out = cm @ W.t()
    return out.movedim(-1, axis)


def _coeffs(ctx, name, N, C, shape, bounded=False):
    n = N * C
    for m in shape:
        n *= m
    kw = dict(ge=-8, le=8) if bounded else {}
    return ctx.reals(name, [(((5 * i) % 17) - 8) / 4 for i in range(n)], nice=(-8, 8), **kw).reshape((N, C) + tuple(shape))


def ob_evaluate(ctx, D, shape, stride, derivative, transpose=False):
    from deepali.core.bspline import evaluate_cubic_bspline

    strides = [stride] * D if isinstance(stride, int) else list(stride)   # order (sx, ...)
    c = _coeffs(ctx, "c", 1, 2 if D < 3 else 1, shape, bounded=max(strides) > 6)
    ders = [derivative] * D if isinstance(derivative, int) else list(derivative)
    out = evaluate_cubic_bspline(c, stride=stride, derivative=derivative if not transpose else None, transpose=transpose)
    ref = c
    for sd in range(D):  # spatial dim sd (x = 0) <-> tensor axis -1 - sd
        ref = _ref_eval_1d(ref, strides[sd], ders[sd], ref.ndim - 1 - sd)
    ctx.reach()
    if not transpose:
        ctx.eq(torch.tensor(list(out.shape)), torch.tensor(list(ref.shape)), "output size (n - 3) * stride per axis")
        if max(strides) <= 6:
            ctx.eq(out, ref, f"evaluate(stride={stride}, derivative={derivative}) == sum_k c_k B^(d)(1 + j/s - k)")
        else:  # float32 kernel entries of a large stride are identified with their exact rationals only up to float32 resolution
            ctx.close(out, ref, 2e-4, f"evaluate(stride={stride}, derivative={derivative}) == sum_k c_k B^(d)(1 + j/s - k) (within 2e-4, |c| <= 8)")
    else:
        # transposed convolution returns the full support; the spline domain starts `stride` samples in
        sl = (slice(None), slice(None)) + tuple(slice(strides[D - 1 - ax], strides[D - 1 - ax] + ref.shape[2 + ax]) for ax in range(D))
        ctx.eq(out[sl], ref, f"transposed algorithm (stride={stride}) == analytic spline on the domain")
        conv = evaluate_cubic_bspline(c, stride=stride)
        ctx.eq(out[sl], conv, "the two evaluation algorithms agree")
        shp = tuple(ref.shape[2:])
        ctx.eq(evaluate_cubic_bspline(c, stride=stride, shape=shp, transpose=True), evaluate_cubic_bspline(c, stride=stride, shape=shp), "algorithms agree with shape= cropping")


def ob_weights(ctx, stride, derivative):
    """Weight table: row sums (partition of unity / zero), linear precision; via evaluation of symbolic coefficients."""
    from deepali.core.bspline import cubic_bspline_interpolation_weights, evaluate_cubic_bspline

    w = cubic_bspline_interpolation_weights(stride, derivative)
    ctx.eq(torch.tensor(list(w.shape)), torch.tensor([stride, 4]), "weight table has shape (stride, 4)")
    g = ctx.reals("g", 0.75, ge=-4, le=4, nice=(-4, 4))
    dlt = ctx.reals("d", -1.5, ge=-4, le=4, nice=(-4, 4))
    k = torch.arange(6, dtype=torch.float32)
    c = (g * k + dlt).reshape(1, 1, 6)
    out = evaluate_cubic_bspline(c, stride=stride, derivative=derivative)
    t = 1 + torch.arange(3 * stride, dtype=torch.float32) / stride
    # The weight table is a float32 tensor: for strides <= 6 every entry is identified with its exact rational (k / (6 s^3) has a
    # small denominator); for larger strides an entry and its exact value agree only up to float32 resolution, so the same
    # identities are claimed with a stated tolerance (|g|, |d|, |c| <= 4)
    exact = stride <= 6
    same = (lambda a, b, what: ctx.eq(a, b, what)) if exact else (lambda a, b, what: ctx.close(a, b, 2e-4, what + " (within 2e-4)"))
    if derivative == 0:
        same(out[0, 0], g * t + dlt, "linear precision: coefficients g*k+d reproduce g*t+d")
        ones = evaluate_cubic_bspline(torch.ones(1, 1, 6) * dlt, stride=stride)
        same(ones[0, 0], dlt, "partition of unity")
    elif derivative == 1:
        same(out[0, 0], g, "derivative of the linear spline is its slope (weights sum to 0, first moment 1)")
    else:
        same(out[0, 0], torch.zeros(1), f"derivative {derivative} of a linear spline vanishes")
    # table entries against the analytic basis, weighted by symbolic coefficients
    c4 = ctx.reals("c", [1.0, -0.5, 2.0, 0.25], ge=-4, le=4, nice=(-4, 4))
    r = torch.arange(stride, dtype=torch.float64) / stride
    ref = sum(c4[m] * B(r + 1 - m, derivative).float() for m in range(4))
    same(w.to(c4.dtype) @ c4, ref.to(c4.dtype) if isinstance(ref, torch.Tensor) else ref, f"weights(stride={stride}, derivative={derivative}) . c == sum_m c_m B^(d)(r/s + 1 - m)")


def ob_value(ctx, derivative, region):
    from deepali.core.kernels import cubic_bspline_value

    wit = {"in+": 0.5, "in-": -0.25, "out+": 1.5, "out-": -1.75, "far": 2.5}[region]
    x = ctx.reals("x", wit, nice=(-4, 4))
    v = cubic_bspline_value(x, derivative=derivative)
    ctx.eq(v, B(x, derivative), f"cubic_bspline_value(x, derivative={derivative}) == analytic basis")


def ob_grid_size(ctx, stride):
    from deepali.core.bspline import cubic_bspline_control_point_grid_size

    m = ctx.ints("m", [7], ge=1, le=100000, dtype=torch.int32)
    n = cubic_bspline_control_point_grid_size(m, [stride])
    nt = ctx.terms_of([getattr(v, "term", v) for v in n]) if ctx.mode == "sym" else torch.tensor([float(v) for v in n])
    mt = ctx.terms_of(m) if ctx.mode == "sym" else m.double()
    if ctx.mode == "sym":
        import numpy as np
        from symtorch import terms as tm

        n0, m0 = nt.reshape(-1)[0], mt.reshape(-1)[0]
        s = tm.const(stride)
        cov = np.empty((), dtype=object); cov[()] = tm.le(m0, tm.mul(tm.sub(n0, tm.const(3)), s))
        ctx.true(cov, f"stride {stride}: (n - 3) * s >= m (evaluated field covers the image)")
        mini = np.empty((), dtype=object); mini[()] = tm.lt(tm.mul(tm.sub(n0, tm.const(5)), s), m0)
        ctx.true(mini, f"stride {stride}: n is minimal up to the documented +1")
    else:
        ctx.true(torch.tensor([(nt[0] - 3) * stride >= mt[0]]), f"stride {stride}: (n - 3) * s >= m (evaluated field covers the image)")
        ctx.true(torch.tensor([(nt[0] - 5) * stride < mt[0]]), f"stride {stride}: n is minimal up to the documented +1")


def ob_subdivide(ctx, D, shape, stride, twice=False):
    from deepali.core.bspline import evaluate_cubic_bspline, subdivide_cubic_bspline

    c = _coeffs(ctx, "c", 1, 1, shape)
    f = subdivide_cubic_bspline(c)
    ctx.eq(torch.tensor(list(f.shape[2:])), torch.tensor([2 * m - 1 for m in shape]), "subdivision: 2n - 1 coefficients per axis")
    coarse = evaluate_cubic_bspline(c, stride=2 * stride)
    fine = evaluate_cubic_bspline(f, stride=stride)
    sl = (slice(None), slice(None)) + tuple(slice(stride, stride + coarse.shape[2 + ax]) for ax in range(D))
    ctx.eq(fine[sl], coarse, f"evaluate(subdivide(c), {stride}) == evaluate(c, {2 * stride}) on the domain")
    if twice:
        ff = subdivide_cubic_bspline(f)
        finer = evaluate_cubic_bspline(ff, stride=stride)
        coarse4 = evaluate_cubic_bspline(c, stride=4 * stride)
        sl = (slice(None), slice(None)) + tuple(slice(3 * stride, 3 * stride + coarse4.shape[2 + ax]) for ax in range(D))
        ctx.eq(finer[sl], coarse4, "repeated subdivision keeps the function")
    if D >= 2:
        fx = subdivide_cubic_bspline(c, dims=0)
        ctx.eq(torch.tensor(list(fx.shape[2:])), torch.tensor(list(shape[:-1]) + [2 * shape[-1] - 1]), "subdivision along x only")
        strides = [stride] + [2 * stride] * (D - 1)
        fine_x = evaluate_cubic_bspline(fx, stride=strides)
        slx = (slice(None), slice(None)) + (slice(None),) * (D - 1) + (slice(stride, stride + coarse.shape[-1]),)
        ctx.eq(fine_x[slx], coarse, "subdivision along x only keeps the function")


def ob_ffd(ctx, D, sizes, stride, transpose):
    """FreeFormDeformation: displacement field == analytic spline of its parameters, covers the whole grid;
    refining the image grid (grid_) keeps the displacement at the old grid points."""
    from deepali.core.grid import Grid
    from deepali.spatial.bspline import FreeFormDeformation

    grid = Grid(size=sizes, spacing=[1.0, 1.5, 0.5][:D])
    t = FreeFormDeformation(grid, stride=stride, transpose=transpose)
    shp = tuple(t.data_shape)
    p = _coeffs(ctx, "p", 1, shp[0], shp[1:]) / 16
    t.data_(p)
    t.update()
    u = t.u
    ctx.eq(torch.tensor(list(u.shape[2:])), torch.tensor(list(reversed(sizes))), "FFD displacement covers the whole image grid")
    strides = [stride] * D if isinstance(stride, int) else list(stride)
    ref = p
    for sd in range(D):
        ref = _ref_eval_1d(ref, strides[sd], 0, ref.ndim - 1 - sd)
    sl = (slice(None), slice(None)) + tuple(slice(0, m) for m in reversed(sizes))
    ctx.eq(u, ref[sl], "FFD displacement == analytic spline of the parameters (control point 1 at image index 0)")


def ob_ffd_refine(ctx, D, sizes, stride, dims):
    """Refining the image grid of a free-form deformation (control grid subdivision) keeps the displacement
    at the old grid points."""
    from deepali.core.grid import Grid
    from deepali.spatial.bspline import FreeFormDeformation

    grid = Grid(size=sizes, spacing=[1.0, 1.5, 0.5][:D])
    t = FreeFormDeformation(grid, stride=stride)
    shp = tuple(t.data_shape)
    p = _coeffs(ctx, "p", 1, shp[0], shp[1:]) / 16
    t.data_(p)
    u0 = t.update().u.clone()
    new_sizes = [2 * n - 1 if k in dims else n for k, n in enumerate(sizes)]
    fine = grid.resize(new_sizes)
    t.grid_(fine)
    u1 = t.update().u
    ctx.eq(torch.tensor(list(u1.shape[2:])), torch.tensor(list(reversed(new_sizes))), "refined FFD covers the refined grid")
    sl = (slice(None), slice(None)) + tuple(slice(0, None, 2) if k in dims else slice(None) for k in reversed(range(D)))
    ctx.eq(u1[sl], u0, "grid_(2n-1): displacement at the old grid points is unchanged")
    ctx.eq(torch.tensor(list(t.data().shape[1:])), torch.tensor(list(t.data_shape)), "refined parameters have the shape of the new control grid")


def obligations(tier: str, seed: int):
    obs = []
    strides = (1, 2, 3, 4, 5) if tier == "quick" else tuple(range(1, 17))
    for s in strides:
        for d in (0, 1, 2, 3):
            obs.append((f"weights-s{s}-d{d}", ob_weights, dict(stride=s, derivative=d)))
        obs.append((f"eval-1d-s{s}", ob_evaluate, dict(D=1, shape=(6,), stride=s, derivative=0)))
        obs.append((f"grid-size-s{s}", ob_grid_size, dict(stride=s)))
    for s in (1, 2, 3, 5):
        obs.append((f"eval-1d-transpose-s{s}", ob_evaluate, dict(D=1, shape=(5,), stride=s, derivative=0, transpose=True)))
    for d in (1, 2, 3):
        obs.append((f"eval-1d-s3-d{d}", ob_evaluate, dict(D=1, shape=(6,), stride=3, derivative=d)))
    obs.append(("eval-2d-s2x3", ob_evaluate, dict(D=2, shape=(4, 5), stride=(2, 3), derivative=0)))
    obs.append(("eval-2d-s2-d10", ob_evaluate, dict(D=2, shape=(5, 4), stride=2, derivative=(1, 0))))
    obs.append(("eval-2d-s3x1-d02", ob_evaluate, dict(D=2, shape=(4, 5), stride=(3, 1), derivative=(0, 2))))
    obs.append(("eval-2d-transpose-s2x3", ob_evaluate, dict(D=2, shape=(4, 5), stride=(2, 3), derivative=0, transpose=True)))
    obs.append(("eval-3d-s2", ob_evaluate, dict(D=3, shape=(4, 4, 5), stride=2, derivative=0)))
    obs.append(("eval-3d-s1x2x3-d101", ob_evaluate, dict(D=3, shape=(4, 5, 4), stride=(1, 2, 3), derivative=(1, 0, 1))))
    obs.append(("eval-3d-transpose-s2", ob_evaluate, dict(D=3, shape=(4, 4, 4), stride=2, derivative=0, transpose=True)))
    for d in (0, 1, 2):
        for region in ("in+", "in-", "out+", "out-", "far"):
            obs.append((f"value-d{d}-{region}", ob_value, dict(derivative=d, region=region)))
    obs.append(("subdivide-1d... ".strip(), ob_subdivide, dict(D=2, shape=(1, 5), stride=1, twice=True)) if False else ("subdivide-2d-s1-twice", ob_subdivide, dict(D=2, shape=(4, 5), stride=1, twice=True)))
    obs.append(("subdivide-2d-s2", ob_subdivide, dict(D=2, shape=(5, 4), stride=2)))
    obs.append(("subdivide-3d-s1", ob_subdivide, dict(D=3, shape=(4, 4, 5), stride=1)))
    for (D, sizes, stride) in ((2, (7, 5), 2), (2, (8, 6), 4), (2, (5, 9), (3, 2)), (3, (5, 4, 6), 2), (2, (6, 6), 1)):
        for tr in (False, True):
            obs.append((f"ffd-D{D}-{'x'.join(map(str, sizes))}-s{stride}-{'tr' if tr else 'conv'}".replace(" ", ""), ob_ffd, dict(D=D, sizes=sizes, stride=stride, transpose=tr)))
    for (D, sizes, stride, dims) in ((2, (12, 14), 5, (0, 1)), (2, (8, 9), 4, (0,)), (2, (6, 7), 2, (0, 1)), (2, (5, 5), 1, (1,)), (3, (5, 6, 4), 3, (0, 1, 2))):
        obs.append((f"ffd-refine-D{D}-{'x'.join(map(str, sizes))}-s{stride}", ob_ffd_refine, dict(D=D, sizes=sizes, stride=stride, dims=dims)))
    return obs
