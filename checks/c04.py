"""C04 - Image operations move voxel data and sampling grid in lock-step."""
from __future__ import annotations

import torch

from vlib import geom
from vlib.geom import sym_grid, ref_index_to_world, ref_origin_from_center

PROPERTY = "C04"
EXPLANATION = (
    "Bounded symbolic execution + SMT. Images whose intensity is a linear function alpha . world + beta of the world position given by an "
    "independent geometry model (alpha, beta, spacing, center, rotation symbolic; per-image grids in batches), plus a channel of free symbolic "
    "voxels, are pushed through the real ImageBatch / Image / FlowFields methods. z3 decides for all values that the returned data equals the same "
    "linear function of the world positions of the returned grid (samples inside the original field of view), that the grid has the shape of "
    "the data, and for index-only operations that the free voxels are copied exactly from the expected source index."
)
ASSUMPTIONS = [
    "sizes, margins, kernel sizes, ROI boxes and target sizes are enumerated (tensor shapes); sigma=0 for down/upsampling (Gaussian smoothing is only exact on ramps away from borders)",
    "'inside the original field of view' = continuous source index within [0, n-1] on every axis (checked at the witness from the returned grid); chains use an eroded interior",
]
BOUNDS = {"quick": dict(D=[2, 3], sizes=["6x5", "5x4x4"], N=[1, 2], chains=2), "thorough": dict(D=[2, 3], sizes=["6x5", "7x6", "5x4x4"], N=[1, 2], chains=3)}


def _ramp_batch(ctx, D, sizes, N, a, same_spacing=False, cls="batch", channels=2, concrete=False):
    """ImageBatch with channel 0 = alpha . world(i) + beta (harness geometry model), channel 1 = free voxels."""
    from deepali.data.image import ImageBatch

    shape = tuple(reversed(sizes))
    grids, Ps, data = [], [], []
    idx = torch.stack(torch.meshgrid(*[torch.arange(m, dtype=torch.float32) for m in shape], indexing="ij"), dim=-1).flip(-1)  # (..., X, D)
    numel = idx[..., 0].numel()
    for k in range(N):
        if concrete:
            g = geom.concrete_grid(D, ctx.seed, k, align_corners=a, sizes=sizes)
            g = g.center(geom.concrete_grid(D, ctx.seed, 0, sizes=sizes).center() + 0.25 * k)
            P = dict(s=g.spacing().clone(), c=g.center().clone(), R=g.direction().clone(), n=list(sizes))
        else:
            cw = [v + 0.25 * k for v in geom.pick(geom.CENTERS, ctx.seed, 0)[:D]]  # overlapping fields of view
            g, P = sym_grid(ctx, f"g{k}", D, ctx.seed, k, sizes=sizes, align_corners=a, center_wit=cw)
        if same_spacing and k > 0:
            from deepali.core.grid import Grid

            g = Grid(size=sizes, spacing=Ps[0]["s"], center=P["c"], direction=P["R"], align_corners=a)
            P = dict(P, s=Ps[0]["s"])
        bounds = dict(ge=-2, le=2) if concrete else {}
        al = ctx.reals(f"al{k}", [0.5, -0.25, 0.75][:D], nice=(-2, 2), **bounds)
        be = ctx.reals(f"be{k}", 1.5 - k, nice=(-8, 8), **(dict(ge=-8, le=8) if concrete else {}))
        P["alpha"], P["beta"], P["concrete"] = al, be, concrete
        origin = ref_origin_from_center(P["c"], P["s"], P["R"], sizes)
        w = ref_index_to_world(idx, origin, P["s"], P["R"])
        ramp = (w * al).sum(-1) + be
        chans = [ramp]
        if channels > 1:
            chans.append(ctx.reals(f"I{k}", [((7 * i + 3 * k) % 11) / 4 for i in range(numel)], nice=(-8, 8)).reshape(shape))
        data.append(torch.stack(chans))
        grids.append(g)
        Ps.append(P)
    return ImageBatch(torch.stack(data), grids), grids, Ps


def _numeric_copy(ctx, g):
    """Concrete copy of a grid at the witness (no terms)."""
    if ctx.mode == "sym":
        with ctx.eng.suspended():
            return g.clone()
    return g


def _check_ramp(ctx, out, grids0, Ps, what, erode=0, fovs=None):
    """out data (channel 0) == alpha . w'(j) + beta with w' from the returned grid, inside the original FOV
    (and inside the FOV of every intermediate image of a chain)."""
    shape = tuple(out.shape[2:])
    ctx.eq(torch.tensor([len(out.grids())]), torch.tensor([out.shape[0]]), f"{what}: one grid per image")
    idx = torch.stack(torch.meshgrid(*[torch.arange(m, dtype=torch.float32) for m in shape], indexing="ij"), dim=-1).flip(-1)
    data = out.tensor()
    for k, (g_new, g_old, P) in enumerate(zip(out.grids(), grids0, Ps)):
        ctx.eq(torch.tensor(list(g_new.shape)), torch.tensor(list(shape)), f"{what}: grid {k} has the shape of the data")
        w = g_new.index_to_world(idx, decimals=None)
        expect = (w * P["alpha"]).sum(-1) + P["beta"]
        mask = torch.ones(shape, dtype=torch.bool)
        regions = [g_old] + [f[k] for f in (fovs or [])]
        for g_ref in regions:
            src = g_ref.world_to_index(w, decimals=None)  # symbolic continuous source index
            if ctx.mode == "sym":
                with ctx.eng.suspended():
                    src_w = src.detach().clone()
            else:
                src_w = src
            hi = torch.tensor([n - 1 for n in g_ref.size()], dtype=src_w.dtype)
            inside = ((src_w >= erode - 1e-4) & (src_w <= hi - erode + 1e-4)).all(-1)
            mask &= inside
            # samples on (or next to) the border of the field of view at the witness: "inside" becomes a precondition
            near_lo = inside.unsqueeze(-1) & (src_w < erode + 1e-3)
            near_hi = inside.unsqueeze(-1) & (src_w > hi - erode - 1e-3)
            if bool(near_lo.any()):
                ctx.assume_cmp(src[near_lo], ">=", float(erode))
            if bool(near_hi.any()):
                ctx.assume_cmp(src[near_hi], "<=", (hi - erode).expand_as(src_w)[near_hi])
        if int(mask.sum()) == 0:
            ctx.notes.append(f"{what}: no sample inside the field of view")
            continue
        got = data[k, 0]
        msg = f"{what}: image {k} is the same linear function of the new grid's world positions ({int(mask.sum())} samples)"
        if P.get("concrete"):
            # concrete rotated grids: interpolation weights come from float32 coordinates, so the identity is decided up to 1e-3
            # for all |alpha| <= 2, |beta| <= 8 (linear real arithmetic)
            ctx.close(got[mask], expect[mask], 1e-3, msg + " [within 1e-3]")
        else:
            ctx.eq(got[mask], expect[mask], msg)


def _index_expect(op, sizes):
    """(start offsets per axis x.., expected size) of index-only operations (same conventions as C03)."""
    D = len(sizes)
    kind = op[0]
    if kind in ("crop", "pad"):
        num = op[1]
        sgn = 1 if kind == "crop" else -1
        return [sgn * num[2 * k] for k in range(D)], [max(sizes[k] - sgn * (num[2 * k] + num[2 * k + 1]), 1) for k in range(D)]
    if kind in ("crop_margin", "pad_margin"):
        mg = [op[1]] * D if isinstance(op[1], int) else list(op[1])
        sgn = 1 if kind == "crop_margin" else -1
        return [sgn * m for m in mg], [sizes[k] - 2 * sgn * mg[k] for k in range(D)]
    if kind == "narrow":
        _, dim, start, length = op  # dim = spatial dim (x = 0)
        return [start if k == dim else 0 for k in range(D)], [length if k == dim else sizes[k] for k in range(D)]
    if kind == "roi":
        st = [op[1]] * D if isinstance(op[1], int) else list(op[1])
        sz = [op[2]] * D if isinstance(op[2], int) else list(op[2])
        return st, sz
    if kind == "center_crop":
        t = [op[1]] * D if isinstance(op[1], int) else list(op[1])
        exp = [min(sizes[k], t[k]) for k in range(D)]
        return [(sizes[k] - exp[k]) // 2 for k in range(D)], exp
    if kind == "center_pad":
        t = [op[1]] * D if isinstance(op[1], int) else list(op[1])
        exp = [max(sizes[k], t[k]) for k in range(D)]
        return [-((exp[k] - sizes[k]) // 2) for k in range(D)], exp
    raise ValueError(op)


def _apply(im, op, D):
    kind = op[0]
    if kind == "crop":
        return im.crop(num=op[1])
    if kind == "pad":
        return im.pad(num=op[1], mode=op[2] if len(op) > 2 else "constant", value=op[3] if len(op) > 3 else 0)
    if kind == "crop_margin":
        return im.crop(margin=op[1])
    if kind == "pad_margin":
        return im.pad(margin=op[1], mode="replicate")
    if kind == "narrow":
        return im.narrow(im.ndim - 1 - op[1], op[2], op[3])
    if kind == "roi":
        return im.region_of_interest(op[1], op[2])
    if kind == "center_crop":
        return im.center_crop(op[1])
    if kind == "center_pad":
        return im.center_pad(op[1])
    if kind == "resize":
        return im.resize(op[1], align_corners=op[2] if len(op) > 2 else None)
    if kind == "resample":
        return im.resample(op[1])
    if kind == "downsample":
        return im.downsample(op[1], sigma=0, **(dict(dims=op[2]) if len(op) > 2 else {}))
    if kind == "upsample":
        return im.upsample(op[1], sigma=0, **(dict(dims=op[2]) if len(op) > 2 else {}))
    if kind == "avg_pool":
        return im.avg_pool(op[1])
    if kind == "conv":
        k = torch.tensor(op[1])
        return im.conv(k / k.sum(), padding="replicate")
    if kind == "sample":
        return im.sample(op[1])
    raise ValueError(op)


INDEX_KINDS = ("crop", "pad", "crop_margin", "pad_margin", "narrow", "roi", "center_crop", "center_pad")


def ob_ops(ctx, D, sizes, N, a, ops, cls="batch"):
    same_spacing = any(o[0] == "resample" for o in ops)
    # symbolic coordinates through grid_sample are expensive: resample always, sample in 3-D use concrete rational grids
    concrete = any(o[0] == "resample" or (o[0] == "sample" and D == 3) for o in ops)
    im, grids, Ps = _ramp_batch(ctx, D, sizes, N, a, same_spacing=same_spacing, concrete=concrete)
    x = im if cls == "batch" else im[0]
    cur_sizes = list(sizes)
    start_total = [0] * D
    avail = [(0, sizes[k] - 1) for k in range(D)]  # original indices still present (per axis)
    all_index = True
    label = []
    out = x
    fovs = []
    for op in ops:
        o = op
        if op[0] == "sample":
            # target grid: shifted / rotated copy of the image grid with another size
            tgt = grids[0].resize([m - 1 for m in cur_sizes]).center(grids[0].center() + 0.125)
            o = ("sample", tgt)
        out = _apply(out, o, D)
        label.append(op[0])
        if op is not ops[-1]:
            fovs.append(list(out.grids()) if cls == "batch" else [out.grid()])
        if op[0] in INDEX_KINDS and all_index:
            st, cur_sizes = _index_expect(op, cur_sizes)
            start_total = [start_total[k] + st[k] for k in range(D)]
            avail = [(max(avail[k][0], start_total[k]), min(avail[k][1], start_total[k] + cur_sizes[k] - 1)) for k in range(D)]
        else:
            all_index = False
    what = "+".join(label)
    ob = out if cls == "batch" else out.batch()
    ctx.reach()
    erode = 0 if (len(ops) == 1 and ops[0][0] != "conv") else 1
    _check_ramp(ctx, ob, grids if cls == "batch" else grids[:1], Ps if cls == "batch" else Ps[:1], what, erode=erode, fovs=fovs)
    if all_index:
        # exact copies of the free voxel channel from the expected source index
        ctx.eq(torch.tensor(list(ob.shape[2:])), torch.tensor(list(reversed(cur_sizes))), f"{what}: output size")
        src = im.tensor()
        res = ob.tensor()
        sl_out, sl_in = [], []
        for k in reversed(range(D)):  # tensor axes: z, y, x
            lo = max(0, avail[k][0] - start_total[k])
            hi = min(cur_sizes[k], avail[k][1] - start_total[k] + 1)
            sl_out.append(slice(lo, hi))
            sl_in.append(slice(lo + start_total[k], hi + start_total[k]))
        nb = ob.shape[0]
        ctx.eq(res[(slice(None), slice(1, 2)) + tuple(sl_out)], src[(slice(0, nb), slice(1, 2)) + tuple(sl_in)], f"{what}: retained voxels are exact copies of in[j + start]")


def ob_pyramid(ctx, D, sizes, a, levels):
    im, grids, Ps = _ramp_batch(ctx, D, sizes, 1, a)
    pyr = im.pyramid(levels, sigma=0)
    ctx.eq(torch.tensor([len(pyr)]), torch.tensor([levels]), "pyramid: one image per level")
    for lvl, out in pyr.items():
        _check_ramp(ctx, out, grids, Ps, f"pyramid level {lvl}")


def ob_flow_sample(ctx, D, sizes, a):
    """FlowFields.sample on another grid: world-space vectors at the new samples are the interpolated old ones
    (a field that is a linear function of world position stays that function)."""
    from deepali.data.flow import FlowFields

    shape = tuple(reversed(sizes))
    if D == 3:
        g = geom.concrete_grid(D, ctx.seed, 0, align_corners=a, sizes=sizes)
        P = dict(s=g.spacing().clone(), c=g.center().clone(), R=g.direction().clone(), n=list(sizes))
    else:
        g, P = sym_grid(ctx, "g", D, ctx.seed, 0, sizes=sizes, align_corners=a)
    bnd = dict(ge=-2, le=2) if D == 3 else {}
    M = ctx.reals("M", [[0.25, -0.125, 0.0][:D], [0.0625, 0.5, -0.25][:D], [0.0, 0.125, 0.375][:D]][:D], nice=(-2, 2), **bnd)
    b = ctx.reals("b", [0.5, -1.0, 0.25][:D], nice=(-4, 4), **(dict(ge=-4, le=4) if D == 3 else {}))
    idx = torch.stack(torch.meshgrid(*[torch.arange(m, dtype=torch.float32) for m in shape], indexing="ij"), dim=-1).flip(-1)
    origin = ref_origin_from_center(P["c"], P["s"], P["R"], sizes)
    w = ref_index_to_world(idx, origin, P["s"], P["R"])
    vw = w @ M.t() + b  # world vectors, linear in world position
    for axes in ("world", "cube_corners" if a else "cube", "grid"):
        data = g.transform_vectors(vw, "world", axes).movedim(-1, 0).unsqueeze(0)
        f = FlowFields(data, g, axes)
        tgt = g.resize([m - 1 for m in sizes])
        out = f.sample(tgt)
        ctx.eq(torch.tensor(list(out.grid().shape)), torch.tensor(list(out.shape[2:])), f"flow sample ({axes}): grid has the shape of the data")
        shp = tuple(out.shape[2:])
        jdx = torch.stack(torch.meshgrid(*[torch.arange(m, dtype=torch.float32) for m in shp], indexing="ij"), dim=-1).flip(-1)
        w2 = out.grid().index_to_world(jdx, decimals=None)
        expect = w2 @ M.t() + b
        got = out.axes("world").tensor()[0].movedim(0, -1)
        if D == 3:
            ctx.close(got, expect, 1e-3, f"flow sample ({axes}): world vectors are the same linear function at the new samples [within 1e-3]")
        else:
            ctx.eq(got, expect, f"flow sample ({axes}): world vectors are the same linear function at the new samples")


def obligations(tier: str, seed: int):
    obs = []
    cfg = {2: (6, 5), 3: (5, 4, 4)}
    for D in (2, 3):
        sz = cfg[D]
        num_a = (1, 2, 0, 1, 1, 0)[: 2 * D]
        num_b = (-1, 2, 1, -2, 0, 1)[: 2 * D]
        singles = [
            ("crop", num_a), ("pad", num_a, "constant", 0.5), ("crop", num_b), ("pad", num_b, "replicate"), ("crop_margin", (1, 1, 0)[:D]), ("pad_margin", 1),
            ("narrow", 0, 1, 3), ("narrow", D - 1, 1, 2), ("roi", (1, 2, 0)[:D], (3, 2, 3)[:D]), ("center_crop", (4, 3, 2)[:D]), ("center_crop", 3),
            ("center_pad", (9, 6, 7)[:D]), ("center_pad", 8),
            ("resize", tuple(m + 2 for m in sz)), ("resize", tuple(max(m - 2, 2) for m in sz), False), ("resize", tuple(m + 1 for m in sz), True),
            ("downsample", 1), ("upsample", 1), ("downsample", 1, (0,)), ("avg_pool", 2), ("conv", [1.0, 2.0, 1.0]), ("sample",), ("resample", 0.5),
        ]
        for k, op in enumerate(singles):
            a = bool((k + seed) % 2)
            N = 1 if op[0] == "resample" else (2 if (k % 3 == 0 or op[0] == "sample") else 1)
            obs.append((f"op-D{D}-{k:02d}-{op[0]}-N{N}-ac{int(a)}", ob_ops, dict(D=D, sizes=sz, N=N, a=a, ops=[op])))
        for op in (("downsample", -1), ("upsample", -1)):  # negative levels: the other direction, both conventions
            for a in (True, False):
                obs.append((f"op-D{D}-{op[0]}-neg-ac{int(a)}", ob_ops, dict(D=D, sizes=sz, N=1, a=a, ops=[op])))
        for k, op in enumerate([("crop", num_a), ("pad", num_b, "replicate"), ("resize", tuple(m + 1 for m in sz)), ("center_pad", 8), ("sample",)]):
            obs.append((f"image-D{D}-{op[0]}", ob_ops, dict(D=D, sizes=sz, N=1, a=bool(k % 2), ops=[op], cls="image")))
        chains = [
            [("crop", num_a), ("pad", num_b, "replicate")],
            [("pad", num_a, "replicate"), ("resize", tuple(m + 3 for m in sz))],
            [("upsample", 1), ("crop_margin", 1)],
            [("center_pad", 8), ("narrow", 0, 1, 5)],
            [("resize", tuple(m + 2 for m in sz)), ("avg_pool", 2)],
        ]
        if tier == "thorough":
            chains += [
                [("crop", num_a), ("upsample", 1), ("center_crop", 5)],
                [("pad", num_b, "replicate"), ("roi", 1, 3), ("resize", (5, 4, 4)[:D])],
                [("resize", tuple(m + 2 for m in sz)), ("downsample", 1), ("pad_margin", 1)],
            ]
        for k, ch in enumerate(chains):
            obs.append((f"chain-D{D}-{k}-" + "+".join(o[0] for o in ch), ob_ops, dict(D=D, sizes=sz, N=1 + k % 2, a=bool(k % 2), ops=ch)))
        for a in (True, False):
            obs.append((f"pyramid-D{D}-ac{int(a)}", ob_pyramid, dict(D=D, sizes=(9, 5, 5)[:D] if D == 3 else (9, 7), a=a, levels=2 if D == 2 else 1)))
            obs.append((f"flow-sample-D{D}-ac{int(a)}", ob_flow_sample, dict(D=D, sizes=sz, a=a)))
    return obs
