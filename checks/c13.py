"""C13 - Composition of flows and velocity fields obeys its algebra."""
from __future__ import annotations

import torch

PROPERTY = "C13"
EXPLANATION = (
    "Bounded symbolic execution + SMT with lemma chaining. compose_flows is executed through the real grid_sample path for pairs of affine "
    "fields with symbolic generators (exactness inside the invariant sample hull, both align_corners conventions, with a must-differ twin) and "
    "for free symbolic fields (zero field as two-sided identity); lie_bracket is shown bilinear and antisymmetric for free symbolic fields in "
    "every finite-difference mode (polynomial identities); compose_svfs is compared term by term with the BCH series with the documented "
    "coefficients (bracket through its own verified definition) for free fields and reduces to the sum for commuting affine fields at every "
    "truncation order; one logv iteration on affine fields is compared with its closed form under both conventions."
)
ASSUMPTIONS = [
    "affine claims: every sample position lies inside the closed hull of the sample centres (path assumptions; contractive witnesses)",
    "accuracy of the BCH truncation and of logv(expv(v)) for smooth non-affine fields is not decided (approximation inequalities outside the solver's reach)",
]
BOUNDS = {"quick": dict(D=[2, 3], shapes=["3x3", "3x4", "3x3x3", "4x4"], bch_terms="0..5"), "thorough": dict(D=[2, 3], shapes=["3x3", "3x4", "4x5", "3x3x3", "4x4x4"], bch_terms="0..5")}

A_WIT = {2: [[-0.25, 0.0625], [0.03125, -0.25]], 3: [[-0.25, 0.0625, 0.0], [0.03125, -0.25, 0.0625], [0.0, -0.0625, -0.1875]]}
B_WIT = {2: [[-0.125, -0.0625], [0.0625, -0.1875]], 3: [[-0.125, -0.0625, 0.03125], [0.0625, -0.1875, 0.0], [0.03125, 0.0, -0.25]]}


def _coords(shape, a):
    from deepali.core.grid import Grid

    return Grid(shape=shape, align_corners=a).coords(align_corners=a)  # (..., X, D)


def _affine(ctx, name, wit, D, x):
    A = ctx.reals(name + "A", wit[D], nice=(-0.5, 0.5))
    b = ctx.reals(name + "b", [0.0] * D, nice=(-0.25, 0.25))
    f = (x @ A.t() + b).movedim(-1, 0).unsqueeze(0)
    return A, b, f


def _free(ctx, name, N, D, shape, scale=1 / 32):
    n = N * D
    for m in shape:
        n *= m
    return ctx.reals(name, [(((5 * i + len(name)) % 13) - 6) * scale for i in range(n)], nice=(-1, 1)).reshape((N, D) + tuple(shape))


def ob_compose_affine(ctx, D, shape, a):
    from deepali.core.flow import compose_flows

    x = _coords(shape, a)
    A, ab, u = _affine(ctx, "u", A_WIT, D, x)
    Bm, bb, v = _affine(ctx, "v", B_WIT, D, x)
    w = compose_flows(u, v, align_corners=a)
    y = x @ A.t() + ab  # u(x)
    ref = (y + (x + y) @ Bm.t() + bb).movedim(-1, 0).unsqueeze(0)
    ctx.reach()
    ctx.eq(w, ref, f"compose_flows(u, v, align_corners={a}) == u(x) + v(x + u(x)) for affine fields")
    wrong = compose_flows(u, v, align_corners=not a)
    ctx.differ(wrong, ref, "the other align_corners flag must give a different field")


def ob_compose_identity(ctx, D, shape, a, N):
    from deepali.core.flow import compose_flows

    ctx.witness_cells()
    f = _free(ctx, "f", N, D, shape)
    z = torch.zeros_like(f)
    ctx.eq(compose_flows(f, z, align_corners=a), f, "compose(u, 0) == u")
    ctx.eq(compose_flows(z, f, align_corners=a), f, "compose(0, v) == v")
    ctx.eq(compose_flows(z, z, align_corners=a), z, "compose(0, 0) == 0")


def ob_bracket_algebra(ctx, D, shape, mode, sigma=None, spacing=None):
    from deepali.core.flow import lie_bracket

    u = _free(ctx, "u", 1, D, shape)
    v1 = _free(ctx, "v", 1, D, shape)
    v2 = _free(ctx, "w", 1, D, shape)
    al = ctx.reals("al", 1.5, nice=(-4, 4))
    be = ctx.reals("be", -0.75, nice=(-4, 4))
    kw = dict(mode=mode)
    if sigma is not None:
        kw["sigma"] = sigma
    if spacing is not None:
        kw["spacing"] = spacing
        # units: derivatives with spacing s are derivatives with unit spacing divided by s
        ctx.eq(lie_bracket(v1, u, **kw), lie_bracket(v1, u, **dict(kw, spacing=1.0)) / spacing, f"[{mode}] bracket scales with 1 / spacing")
    mode = f"{mode}, sigma={sigma}, spacing={spacing}"
    ctx.eq(lie_bracket(v1, u, **kw), -lie_bracket(u, v1, **kw), f"[{mode}] [v, u] == -[u, v]")
    ctx.eq(lie_bracket(al * v1 + be * v2, u, **kw), al * lie_bracket(v1, u, **kw) + be * lie_bracket(v2, u, **kw), f"[{mode}] linear in the first argument")
    ctx.eq(lie_bracket(u, al * v1 + be * v2, **kw), al * lie_bracket(u, v1, **kw) + be * lie_bracket(u, v2, **kw), f"[{mode}] linear in the second argument")
    ctx.eq(lie_bracket(u, u, **kw), torch.zeros_like(u), f"[{mode}] [u, u] == 0")


def ob_bch_structure(ctx, D, shape, terms, kw=None):
    from deepali.core.flow import compose_svfs
    from deepali.core.flow import lie_bracket as _lb

    kw = kw or {}
    lie_bracket = lambda a, b: _lb(a, b, **kw)
    u = _free(ctx, "u", 1, D, shape)
    v = _free(ctx, "v", 1, D, shape)
    w = compose_svfs(u, v, bch_terms=terms, **kw)
    ref = v + u
    vu = lie_bracket(v, u)
    if terms >= 1:
        ref = ref + vu / 2
    if terms >= 2:
        vvu = lie_bracket(v, vu)
        ref = ref + vvu / 12
    if terms >= 3:
        ref = ref - lie_bracket(u, vu) / 12
    if terms >= 4:
        # 1/48 ([[v,[v,u]],u] - [v,[u,[v,u]]]); the first bracket alone with 4 terms; both equal -2 [u,[v,[v,u]]] / 48
        ref = ref - lie_bracket(u, vvu) * ((1 if terms == 4 else 2) / 48)
    ctx.eq(w, ref, f"compose_svfs(bch_terms={terms}, {kw}) == BCH series with the documented coefficients, brackets with the same options")


def ob_bch_commuting(ctx, D, shape, terms, kind):
    from deepali.core.flow import compose_svfs

    x = _coords(shape, True)
    if kind == "translations":
        a = ctx.reals("a", [0.125, -0.0625, 0.03125][:D], nice=(-1, 1))
        b = ctx.reals("b", [-0.25, 0.125, 0.0625][:D], nice=(-1, 1))
        u = (torch.zeros_like(x) + a).movedim(-1, 0).unsqueeze(0)
        v = (torch.zeros_like(x) + b).movedim(-1, 0).unsqueeze(0)
    else:
        a = ctx.reals("a", [-0.25, -0.125, -0.5][:D], nice=(-1, 1))
        b = ctx.reals("b", [-0.125, -0.375, -0.0625][:D], nice=(-1, 1))
        u = (x * a).movedim(-1, 0).unsqueeze(0)
        v = (x * b).movedim(-1, 0).unsqueeze(0)
    w = compose_svfs(u, v, bch_terms=terms)
    ctx.eq(w, u + v, f"compose_svfs(bch_terms={terms}) == u + v for commuting fields ({kind})")


def ob_compose_batch(ctx, D, shape, a):
    """Batches: composing N pairs at once equals composing each pair alone."""
    from deepali.core.flow import compose_flows

    ctx.witness_cells()
    u = _free(ctx, "u", 2, D, shape)
    v = _free(ctx, "v", 2, D, shape)
    w = compose_flows(u, v, align_corners=a)
    for k in range(2):
        ctx.eq(w[k:k + 1], compose_flows(u[k:k + 1], v[k:k + 1], align_corners=a), f"batch item {k} == composed alone")


def ob_logv_convention(ctx, D, shape, bch_terms):
    """logv does not depend on the align_corners convention: the same physical field given in cube-corners units
    (align_corners=True) and in cube units (align_corners=False) yields the same physical velocity field."""
    from deepali.core.flow import logv

    ctx.witness_cells()
    f = _free(ctx, "f", 1, D, shape, 1 / 64)
    scale = torch.tensor([(m - 1) / m for m in reversed(shape)]).reshape((1, D) + (1,) * D)  # cube_corners -> cube units (x, y, z)
    kw = dict(num_iters=1, bch_terms=bch_terms, sigma=None, exp_steps=1)
    if bch_terms > 0:
        kw["spacing"] = 1.0
    vT = logv(f, align_corners=True, **kw)
    vF = logv(f * scale, align_corners=False, **kw)
    ctx.eq(vF, vT * scale, f"logv(bch_terms={bch_terms}): align_corners=False result == align_corners=True result (converted units)")


def obligations(tier: str, seed: int):
    obs = []
    shapes = {2: [(3, 3), (3, 4)], 3: [(3, 3, 3)]}
    if tier == "thorough":
        shapes = {2: [(3, 3), (3, 4), (4, 5)], 3: [(3, 3, 3), (3, 4, 3)]}
    for D in (2, 3):
        for shape in shapes[D]:
            sh = "x".join(map(str, shape))
            for a in (True, False):
                obs.append((f"compose-affine-D{D}-{sh}-ac{int(a)}", ob_compose_affine, dict(D=D, shape=shape, a=a)))
                obs.append((f"compose-identity-D{D}-{sh}-ac{int(a)}", ob_compose_identity, dict(D=D, shape=shape, a=a, N=1)))
                if a:
                    obs.append((f"logv-convention-D{D}-{sh}", ob_logv_convention, dict(D=D, shape=shape, bch_terms=0)))
            obs.append((f"compose-batch-D{D}-{sh}", ob_compose_batch, dict(D=D, shape=shape, a=bool((D + seed) % 2))))
        bshape = (4, 4) if D == 2 else (3, 3, 3)
        for mode in ("forward_central_backward", "central", "forward", "backward", "sobel", "prewitt"):
            if D == 3 and tier == "quick" and mode not in ("forward_central_backward", "central"):
                continue
            obs.append((f"bracket-algebra-D{D}-{mode}", ob_bracket_algebra, dict(D=D, shape=bshape, mode=mode)))
        obs.append((f"bracket-algebra-D{D}-gaussian-sigma", ob_bracket_algebra, dict(D=D, shape=bshape, mode="gaussian", sigma=0.75)))
        obs.append((f"bracket-algebra-D{D}-central-sigma-spacing", ob_bracket_algebra, dict(D=D, shape=bshape, mode="central", sigma=0.75, spacing=0.5)))
        for kw in (dict(spacing=0.5), dict(sigma=0.75), dict(mode="forward", spacing=2.0)):
            tag = "-".join(f"{k}{v}" for k, v in kw.items())
            obs.append((f"bch-structure-D{D}-t2-{tag}", ob_bch_structure, dict(D=D, shape=(3, 3) if D == 2 else (3, 3, 3), terms=2, kw=kw)))
        for terms in range(6):
            if D == 2 or tier == "thorough":
                obs.append((f"bch-structure-D{D}-t{terms}", ob_bch_structure, dict(D=D, shape=(3, 3) if D == 2 else (3, 3, 3), terms=terms)))
            for kind in ("translations", "diagonal"):
                obs.append((f"bch-commuting-D{D}-t{terms}-{kind}", ob_bch_commuting, dict(D=D, shape=(4, 4) if D == 2 else (3, 3, 3), terms=terms, kind=kind)))
    return obs
