#!/bin/bash
# usage: tools_seeded_sweep.sh [pattern]  -- applies every seeded change in turn to /repo, runs the quick check of its
# property, reverts the change, and records the outcome in seeded/<id>/meta.json ("detected_by"). Never commits to /repo.
cd /verif
PAT="${1:-.}"
for d in seeded/C??-?; do
  id=$(basename $d); prop=${id%-*}
  echo "$id" | grep -Eq -e "$PAT" || continue
  [ -f checks/$(echo $prop | tr C c).py ] || { echo "$id: no check"; continue; }
  (cd /repo && git diff --quiet) || { echo "/repo not clean"; exit 9; }
  git -C /repo apply /verif/$d/patch.diff || { echo "$id: patch does not apply"; continue; }
  out=$(VERIF_EVIDENCE_DIR=/verif/work/evidence_seeded ./check $prop 2>&1); rc=$?
  git -C /repo checkout -- .
  nv=$(echo "$out" | grep -c "^VIOLATION")
  line=$(echo "$out" | grep "^$prop \[" | tail -1)
  echo "$id exit=$rc violations=$nv :: $line"
  python3 - "$d/meta.json" "$prop" "$rc" "$nv" <<'PY'
import json, sys
p, prop, rc, nv = sys.argv[1], sys.argv[2], int(sys.argv[3]), int(sys.argv[4])
m = json.load(open(p))
m["detected_by"] = dict(check=prop, tier="quick", exit=rc, violation_lines=nv) if rc == 1 and nv > 0 else None
m["last_result"] = dict(check=prop, tier="quick", exit=rc, violation_lines=nv)
json.dump(m, open(p, "w"), indent=1)
PY
done
