#!/usr/bin/env python3
"""Replaces the seeded-changes table in DESIGN.md (section 10.7) with the current output of tools_seeded_table.py."""
import subprocess

p = "/verif/DESIGN.md"
s = open(p).read()
a = s.index("| id | change site | detected by")
b = s.index("### 10.8 Thorough tier")
table = subprocess.run(["python3", "/verif/tools_seeded_table.py"], capture_output=True, text=True).stdout
open(p, "w").write(s[:a] + table + "\n" + s[b:])
print("table rows:", table.count("\n") - 2)
