#!/bin/bash
# usage: tools_confirm_mutant2.sh C03 A (round 2: stored as variant C/D)   -- confirms a sub-agent's change in its scratch worktree and stores it under seeded/
# (suite passes with the change; demo fails with it and passes without it)
PID="$1"; X="$2"
WT=/tmp/mut2/$PID; OUT=/tmp/mut2/out/$PID; Y=$(echo $X | tr AB CD); DST=/verif/seeded/$PID-$Y
[ -f "$OUT/patch$X.diff" ] || { echo "no patch $PID $X"; exit 2; }
cd "$WT" && git checkout -q -- . && git clean -fdq
export PYTHONPATH="$WT/src"
/venv/bin/python "$OUT/demo$X.py" >/dev/null 2>&1; demo_clean=$?
git apply "$OUT/patch$X.diff" || { echo "$PID-$X patch does not apply"; exit 2; }
files=$(git diff --name-only | tr '\n' ' ')
/venv/bin/python "$OUT/demo$X.py" >/tmp/mut2/out/$PID/demo$X.mutated.log 2>&1; demo_mut=$?
suite=$(/venv/bin/python -m pytest -q -p no:cacheprovider --timeout=900 -x tests 2>&1 | tail -1)
git checkout -q -- .
ok=false
if [ $demo_clean -eq 0 ] && [ $demo_mut -ne 0 ] && echo "$suite" | grep -q "88 passed"; then ok=true; fi
mkdir -p "$DST"
cp "$OUT/patch$X.diff" "$DST/patch.diff"; cp "$OUT/demo$X.py" "$DST/demo.py"; cp "$OUT/note$X.txt" "$DST/note.txt" 2>/dev/null
python3 - "$PID" "$Y" "$demo_clean" "$demo_mut" "$suite" "$files" "$ok" <<'PY'
import json, sys
pid, x, dc, dm, suite, files, ok = sys.argv[1:8]
note = ""
try: note = open(f"/verif/seeded/{pid}-{x}/note.txt").read()
except Exception: pass
json.dump({"property": pid, "variant": x, "files_changed": files.split(), "needs_to_manifest": note.strip(),
  "confirmed": ok == "true",
  "what_i_ran": {"demo_on_unchanged_tree_exit": int(dc), "demo_with_change_exit": int(dm), "test_suite_with_change": suite,
                  "commands": ["git apply patch.diff (scratch worktree)", "PYTHONPATH=<wt>/src /venv/bin/python demo.py", "PYTHONPATH=<wt>/src /venv/bin/python -m pytest -q -p no:cacheprovider --timeout=900 tests"]},
  "origin": "independent sub-agent given only the property text and a scratch worktree", "detected_by": None}, open(f"/verif/seeded/{pid}-{x}/meta.json", "w"), indent=1)
print(pid, x, "confirmed" if ok == "true" else "NOT CONFIRMED", dc, dm, suite)
PY
