#!/usr/bin/env python3
"""Regenerates MANIFEST.json from the check modules present under checks/ (run after adding a check)."""
import json, os, sys, importlib
ROOT = os.path.dirname(os.path.abspath(__file__))
sys.path.insert(0, ROOT)
ALL = [f"C{i:02d}" for i in range(1, 21)]
NA = {
    "C18": "file-format I/O runs entirely inside C libraries (numpy buffers, zlib, nibabel, SimpleITK, the file system); no symbolic encoding of the real code is within reach of this technique (DESIGN.md section 4, C18)",
}
LEVEL_TEXT = ("bounded symbolic execution of the real deepali code at the ATen operator level (concolic TorchDispatchMode engine) with the "
              "property decided by z3 over all values of the symbolic inputs within the stated bounds (dimension, shapes, explored paths); "
              "counterexamples are replayed on the real code before being reported")
NOTE = ("real arithmetic (float rounding not modelled unless stated), float constants identified with the simplest rational within float32 resolution, "
        "ATen kernels trusted (checked against the transfer functions at every witness), z3/cvc5 trusted, claim restricted to recorded path conditions")
checks = []
na = []
for pid in ALL:
    path = os.path.join(ROOT, "checks", pid.lower() + ".py")
    if pid in NA or not os.path.exists(path):
        na.append({"property_id": pid, "reason": NA.get(pid, "check not built yet in this round (planned, see DESIGN.md section 4)")})
        continue
    src = open(path).read()
    tech = "concolic ATen-level symbolic execution of the real code + z3 (QF_NRA/LIA) verdict per obligation, cvc5 cross-check in thorough"
    for line in src.splitlines():
        if line.startswith("TECHNIQUE ="):
            tech = eval(line.split("=", 1)[1])
    checks.append({
        "property_id": pid,
        "quick_cmd": f"./check {pid} --tier quick",
        "thorough_cmd": f"./check {pid} --tier thorough",
        "evidence_file": f"/verif/evidence/{pid}.json",
        "replay_cmd_template": f"./check {pid} --replay {{path}}",
        "engine": "symtorch",
        "level_claimed": {"category": "other", "text": LEVEL_TEXT, "design_ref": f"DESIGN.md section 4 ({pid})"},
        "level_note": NOTE,
        "technique": tech,
    })
m = {
    "version": 1,
    "setup_cmd": "./setup.sh",
    "hooks": {"guard": "BIOMEDIA_DEEPALI_VERIF", "enable": "no source hooks are needed: the engine is a TorchDispatchMode around the unmodified code (PYTHONPATH=/repo/src)", "baseline_off_cmd": "cd /repo && /venv/bin/python -m pytest -ra -q -p no:cacheprovider --timeout=900 --continue-on-collection-errors", "source_commits": [], "add_only": True},
    "engines": [
        {"name": "symtorch", "path": "symtorch/", "serves_properties": [c["property_id"] for c in checks], "kind_free_text": "concolic symbolic execution of PyTorch programs at the ATen level (TorchDispatchMode + per-storage term shadows) with z3 / cvc5 back ends"},
    ],
    "checks": checks,
    "not_applicable": na,
    "notes": "All checks run the current /repo working tree (deepali is imported from /repo/src). known_findings.json lists two recorded findings (C16 ncc_loss mask; C20 disp(other grid) detached from the parameters), for which the checks print KNOWN-FINDING and exit 0, and 32 defects repaired by fix: commits in /repo. evidence/<id>.json is written by complete runs only (tools that apply a seeded change and --only runs write under work/); evidence/thorough/ keeps the last thorough run. DESIGN.md section 10 is the build report.",
}
json.dump(m, open(os.path.join(ROOT, "MANIFEST.json"), "w"), indent=1)
print("checks:", [c["property_id"] for c in checks], "not_applicable:", [n["property_id"] for n in na])
