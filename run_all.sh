#!/bin/bash
# Runs the quick (or given) tier of every registered check sequentially; prints a summary line per property.
TIER="${1:-quick}"
cd "$(dirname "$0")"
for f in checks/c[0-9][0-9].py; do
  id=$(basename "$f" .py | tr c C)
  start=$(date +%s)
  out=$(./check "$id" --tier "$TIER" 2>&1); rc=$?
  echo "$id exit=$rc $(( $(date +%s) - start ))s :: $(echo "$out" | grep "^$id \[" )"
  echo "$out" | grep -E "^VIOLATION|^KNOWN-FINDING|HARNESS-ERROR|INCONCLUSIVE" | head -5
done
