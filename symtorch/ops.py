"""Transfer functions: terms of ATen operator outputs from the terms of their inputs."""
from __future__ import annotations

import itertools
import math
from fractions import Fraction
from typing import Any, Callable, Dict, List, Optional, Sequence, Tuple

import numpy as np
import torch
from torch.utils._pytree import tree_flatten, tree_map

from . import terms as tm
from .terms import T
from .engine import Engine, UnsupportedOp, ConsistencyError

aten = torch.ops.aten

HANDLERS: Dict[str, Callable] = {}


def handler(*names):
    def deco(f):
        for n in names:
            HANDLERS[n] = f
        return f

    return deco


def base_name(func) -> str:
    n = func._schema.name.split("::")[-1]
    if n.endswith("_") and not n.endswith("__") and n not in ("_",):
        # in-place variant; but keep private names such as `_to_copy`
        n = n[:-1]
    return n


class Pre:
    """Snapshot of the argument terms taken BEFORE the real kernel runs (in-place ops overwrite)."""

    def __init__(self, eng: Engine, args, kwargs):
        self.eng = eng

        def snap_(a):
            if isinstance(a, torch.Tensor):
                return eng.terms(a)
            return a

        self.args = tree_map(snap_, list(args))
        self.kwargs = tree_map(snap_, dict(kwargs))

    def a(self, i, name=None, default=None):
        if i < len(self.args):
            return self.args[i]
        if name is not None and name in self.kwargs:
            return self.kwargs[name]
        return default


def _is_view(eng: Engine, func, args, kwargs, out) -> bool:
    sch = func._schema
    if any(a.alias_info is not None and a.alias_info.is_write for a in sch.arguments):
        return False
    ins = {eng._key(a) for a in tree_flatten((args, kwargs))[0] if isinstance(a, torch.Tensor) and not a.is_meta}
    outs = [o for o in tree_flatten(out)[0] if isinstance(o, torch.Tensor)]
    if not outs:
        return False
    return all(o.numel() == 0 or eng._key(o) in ins for o in outs)


INPLACE_VIEWS = {"is_pinned", "is_same_size", "sym_size", "sym_numel", "sym_stride", "sym_storage_offset", "squeeze_", "unsqueeze_", "transpose_", "t_", "as_strided_", "detach_", "swapaxes_", "swapdims_", "requires_grad_", "set_"}


def dispatch_symbolic(eng: Engine, func, args, kwargs):
    if func._schema.name.split("::")[-1] in INPLACE_VIEWS:
        return func(*args, **kwargs)
    name = base_name(func)
    h = HANDLERS.get(name)
    pre = Pre(eng, args, kwargs) if (h is not None and not getattr(h, "no_pre", False)) else None
    out = func(*args, **kwargs)
    if _is_view(eng, func, args, kwargs, out):
        return out
    if h is None:
        raise UnsupportedOp(f"no transfer function for {func} (args: {[type(a).__name__ for a in args]})")
    eng._skip_check = False
    h(eng, func, args, kwargs, out, pre)
    if not eng._skip_check:
        # a float32 rounding error of an operand (within tolerance when it was produced) is amplified by a large concrete
        # factor of a multiplicative op (e.g. x * 10**6 in round_decimals): the comparison tolerance scales with that factor
        amp = 1.0
        if name in ("mul", "mul_", "div", "div_", "addcmul", "addcmul_", "addcdiv", "addcdiv_"):
            for a_ in tree_flatten((args, kwargs))[0]:
                if isinstance(a_, (int, float)) and not isinstance(a_, bool):
                    amp = max(amp, abs(float(a_)), 1.0 / abs(float(a_)) if (a_ and name.startswith("div")) else 1.0)
                elif isinstance(a_, torch.Tensor) and not eng.has(a_) and a_.numel() == 1 and a_.dtype.is_floating_point:
                    with eng.suspended():
                        v_ = abs(float(a_.detach().reshape(-1)[0]))
                    amp = max(amp, v_, 1.0 / v_ if (v_ and name.startswith("div")) else 1.0)
        for o in tree_flatten(out)[0]:
            if isinstance(o, torch.Tensor):
                eng.check_tensor(o, str(func), amplify=min(amp, 1e9))
    return out


# ------------------------------------------------------------------ helpers
def obj(x, shape=None) -> np.ndarray:
    if isinstance(x, np.ndarray):
        a = x
    else:
        a = np.empty((), dtype=object)
        a[()] = tm.lift(x)
    if shape is not None and a.shape != tuple(shape):
        a = np.broadcast_to(a, tuple(shape))
    return a


def vec(f, nin):
    uf = np.frompyfunc(f, nin, 1)

    def g(*arrs):
        r = uf(*arrs)
        if not isinstance(r, np.ndarray):
            a = np.empty((), dtype=object)
            a[()] = r
            return a
        return r

    return g


def pointwise(f, nin):
    g = vec(f, nin)

    def h(eng, func, args, kwargs, out, pre):
        ins = [obj(pre.a(i)) for i in range(nin)]
        res = g(*ins)
        eng.set_terms(out, np.broadcast_to(res, tuple(out.shape)))

    return h


def _int_dtype(t) -> bool:
    return isinstance(t, torch.Tensor) and not t.dtype.is_floating_point and t.dtype != torch.bool and not t.dtype.is_complex


def _scalar_arg(x):
    return obj(x)


# ------------------------------------------------------------------ arithmetic
@handler("add", "sub", "rsub")
def _add(eng, func, args, kwargs, out, pre):
    name = base_name(func)
    a, b = obj(pre.a(0)), obj(pre.a(1, "other"))
    alpha = kwargs.get("alpha", args[2] if len(args) > 2 else 1)
    al = tm.lift(alpha)
    if name == "add":
        f = lambda x, y: tm.add(x, tm.mul(al, y))
    elif name == "sub":
        f = lambda x, y: tm.sub(x, tm.mul(al, y))
    else:
        f = lambda x, y: tm.sub(y, tm.mul(al, x))
    eng.set_terms(out, vec(f, 2)(a, b))


@handler("mul")
def _mul(eng, func, args, kwargs, out, pre):
    a, b = obj(pre.a(0)), obj(pre.a(1, "other"))
    if out.dtype == torch.bool:
        eng.set_terms(out, vec(lambda x, y: tm.and_(tm.boo(x), tm.boo(y)), 2)(a, b))
    else:
        eng.set_terms(out, vec(tm.mul, 2)(a, b))


@handler("div", "true_divide", "divide")
def _div(eng, func, args, kwargs, out, pre):
    a, b = obj(pre.a(0)), obj(pre.a(1, "other"))
    mode = kwargs.get("rounding_mode", None)
    if mode is None:
        f = tm.div
    elif mode == "floor":
        f = lambda x, y: tm.floor_(tm.div(x, y))
    elif mode == "trunc":
        f = lambda x, y: tm.trunc_(tm.div(x, y))
    else:
        raise UnsupportedOp(f"div rounding_mode={mode}")
    eng.set_terms(out, vec(f, 2)(a, b))


@handler("floor_divide")
def _floordiv(eng, func, args, kwargs, out, pre):
    a, b = obj(pre.a(0)), obj(pre.a(1, "other"))
    eng.set_terms(out, vec(lambda x, y: tm.floor_(tm.div(x, y)), 2)(a, b))


@handler("remainder")
def _remainder(eng, func, args, kwargs, out, pre):
    a, b = obj(pre.a(0)), obj(pre.a(1, "other"))
    eng.set_terms(out, vec(lambda x, y: tm.sub(x, tm.mul(y, tm.floor_(tm.div(x, y)))), 2)(a, b))


@handler("fmod")
def _fmod(eng, func, args, kwargs, out, pre):
    a, b = obj(pre.a(0)), obj(pre.a(1, "other"))
    eng.set_terms(out, vec(lambda x, y: tm.sub(x, tm.mul(y, tm.trunc_(tm.div(x, y)))), 2)(a, b))


def _unary(name, f):
    HANDLERS[name] = pointwise(f, 1)


_unary("neg", tm.neg)
_unary("reciprocal", lambda a: tm.div(tm.ONE, a))
_unary("abs", tm.abs_)
_unary("sqrt", tm.sqrt_)
_unary("rsqrt", lambda a: tm.div(tm.ONE, tm.sqrt_(a)))
_unary("square", lambda a: tm.mul(a, a))
_unary("floor", tm.floor_)
_unary("ceil", tm.ceil_)
_unary("trunc", tm.trunc_)
_unary("frac", lambda a: tm.sub(a, tm.trunc_(a)))
_unary("sign", tm.sign_)
_unary("sgn", tm.sign_)
_unary("relu", lambda a: tm.max_(a, tm.ZERO))
_unary("positive", lambda a: a)
for _n in ("exp", "log", "sin", "cos", "tan", "tanh", "atanh", "acos", "asin", "atan", "sigmoid", "erf", "log1p", "expm1", "cosh", "sinh"):
    _unary(_n, (lambda n: (lambda a: tm.fn(n, a)))(_n))
_unary("log2", lambda a: tm.mul(tm.const(1 / math.log(2)), tm.fn("log", a)))
_unary("exp2", lambda a: tm.fn("exp", tm.mul(tm.const(math.log(2)), a)))
_unary("logical_not", lambda a: tm.not_(tm.boo(a)))
_unary("bitwise_not", lambda a: tm.not_(tm.boo(a)))
_unary("isnan", lambda a: tm.FALSE)
_unary("isinf", lambda a: tm.FALSE)
_unary("isfinite", lambda a: tm.TRUE)
_unary("isposinf", lambda a: tm.FALSE)
_unary("isneginf", lambda a: tm.FALSE)


@handler("nan_to_num")
def _nan_to_num(eng, func, args, kwargs, out, pre):
    eng.set_terms(out, obj(pre.a(0)))


@handler("round")
def _round(eng, func, args, kwargs, out, pre):
    dec = kwargs.get("decimals", args[1] if len(args) > 1 else 0)
    a = obj(pre.a(0))
    if dec == 0:
        f = tm.round_
    else:
        k = Fraction(10) ** dec
        f = lambda x: tm.mul(tm.const(1 / k), tm.round_(tm.mul(tm.const(k), x)))
    eng.set_terms(out, vec(f, 1)(a))


@handler("pow")
def _pow(eng, func, args, kwargs, out, pre):
    a, b = obj(pre.a(0)), obj(pre.a(1, "exponent"))

    def f(x, y):
        x, y = tm.lift(x), tm.lift(y)
        if tm.isc(y):
            e = tm.cval(y)
            if e.denominator == 1 or abs(e) == Fraction(1, 2):
                return tm.powi(x, e)
        return tm.fn("pow", x, y)

    eng.set_terms(out, vec(f, 2)(a, b))


def _cmp_handler(name, f):
    def h(eng, func, args, kwargs, out, pre):
        a, b = obj(pre.a(0)), obj(pre.a(1, "other"))
        eng.set_terms(out, vec(f, 2)(a, b))
        if out.dtype == torch.bool and eng.check:
            # comparisons of values that are equal up to float rounding may come out either way in the kernel
            shape = tuple(out.shape)
            aa, bb = np.broadcast_to(a, shape), np.broadcast_to(b, shape)
            with eng.suspended():
                vals = out.detach().cpu().numpy()
            sh = eng._view(out)
            for idx in (np.ndindex(*shape) if shape else [()]):
                t = sh[idx]
                if t is None:
                    continue
                if bool(eng.evalf(t)) != bool(vals[idx]):
                    va, vb = eng.evalf(tm.num(aa[idx])), eng.evalf(tm.num(bb[idx]))
                    if abs(va - vb) <= 1e-5 * (1 + abs(va) + abs(vb)):
                        eng.notes.append(f"comparison at float resolution ({name}): kernel and exact arithmetic disagree; term kept")
                        eng._skip_check = True
                    break

    HANDLERS[name] = h


def _eqf(x, y):
    return tm.eq(x, y) if (tm.lift(x).sort == tm.lift(y).sort) else tm.eq(tm.num(x), tm.num(y))


_cmp_handler("lt", tm.lt)
_cmp_handler("le", tm.le)
_cmp_handler("gt", tm.gt)
_cmp_handler("ge", tm.ge)
_cmp_handler("eq", _eqf)
_cmp_handler("ne", lambda x, y: tm.not_(_eqf(x, y)))
_cmp_handler("less", tm.lt)
_cmp_handler("greater", tm.gt)
_cmp_handler("minimum", tm.min_)
_cmp_handler("maximum", tm.max_)
_cmp_handler("fmin", tm.min_)
_cmp_handler("fmax", tm.max_)
_cmp_handler("logical_and", lambda x, y: tm.and_(tm.boo(x), tm.boo(y)))
_cmp_handler("logical_or", lambda x, y: tm.or_(tm.boo(x), tm.boo(y)))
_cmp_handler("logical_xor", lambda x, y: tm.not_(tm.eq(tm.boo(x), tm.boo(y))))
_cmp_handler("atan2", lambda y, x: tm.fn("atan2", y, x))


def _bitwise(name, fb):
    def h(eng, func, args, kwargs, out, pre):
        if out.dtype != torch.bool:
            raise UnsupportedOp(f"{name} on non-bool dtype")
        a, b = obj(pre.a(0)), obj(pre.a(1, "other"))
        eng.set_terms(out, vec(lambda x, y: fb(tm.boo(x), tm.boo(y)), 2)(a, b))

    HANDLERS[name] = h


_bitwise("bitwise_and", tm.and_)
_bitwise("bitwise_or", tm.or_)
_bitwise("bitwise_xor", lambda x, y: tm.not_(tm.eq(x, y)))


@handler("where")
def _where(eng, func, args, kwargs, out, pre):
    if len(args) == 1:
        raise UnsupportedOp("where(cond) -> nonzero")
    c, a, b = obj(pre.a(0)), obj(pre.a(1)), obj(pre.a(2))
    eng.set_terms(out, vec(lambda c_, x, y: tm.ite(tm.boo(c_), x, y), 3)(c, a, b))


@handler("masked_fill")
def _masked_fill(eng, func, args, kwargs, out, pre):
    a, m, v = obj(pre.a(0)), obj(pre.a(1)), obj(pre.a(2, "value"))
    eng.set_terms(out, vec(lambda x, c_, y: tm.ite(tm.boo(c_), y, x), 3)(a, m, v))


@handler("clamp", "clip")
def _clamp(eng, func, args, kwargs, out, pre):
    a = obj(pre.a(0))
    lo = pre.a(1, "min")
    hi = pre.a(2, "max")
    res = a
    if lo is not None:
        res = vec(tm.max_, 2)(res, obj(lo))
    if hi is not None:
        res = vec(tm.min_, 2)(res, obj(hi))
    eng.set_terms(out, res)


@handler("clamp_min")
def _clamp_min(eng, func, args, kwargs, out, pre):
    eng.set_terms(out, vec(tm.max_, 2)(obj(pre.a(0)), obj(pre.a(1, "min"))))


@handler("clamp_max")
def _clamp_max(eng, func, args, kwargs, out, pre):
    eng.set_terms(out, vec(tm.min_, 2)(obj(pre.a(0)), obj(pre.a(1, "max"))))


@handler("hardtanh")
def _hardtanh(eng, func, args, kwargs, out, pre):
    lo = args[1] if len(args) > 1 else -1.0
    hi = args[2] if len(args) > 2 else 1.0
    eng.set_terms(out, vec(lambda x: tm.min_(tm.max_(x, tm.lift(lo)), tm.lift(hi)), 1)(obj(pre.a(0))))


@handler("lerp")
def _lerp(eng, func, args, kwargs, out, pre):
    a, b, w = obj(pre.a(0)), obj(pre.a(1)), obj(pre.a(2))
    eng.set_terms(out, vec(lambda x, y, w_: tm.add(x, tm.mul(w_, tm.sub(y, x))), 3)(a, b, w))


@handler("addcmul", "addcdiv")
def _addc(eng, func, args, kwargs, out, pre):
    a, b, c = obj(pre.a(0)), obj(pre.a(1)), obj(pre.a(2))
    v = tm.lift(kwargs.get("value", 1))
    op = tm.mul if base_name(func) == "addcmul" else tm.div
    eng.set_terms(out, vec(lambda x, y, z: tm.add(x, tm.mul(v, op(y, z))), 3)(a, b, c))


@handler("tanh_backward")
def _tanh_bw(eng, func, args, kwargs, out, pre):
    g, y = obj(pre.a(0)), obj(pre.a(1))
    eng.set_terms(out, vec(lambda g_, y_: tm.mul(g_, tm.sub(tm.ONE, tm.mul(y_, y_))), 2)(g, y))


@handler("sigmoid_backward")
def _sig_bw(eng, func, args, kwargs, out, pre):
    g, y = obj(pre.a(0)), obj(pre.a(1))
    eng.set_terms(out, vec(lambda g_, y_: tm.mul(g_, tm.mul(y_, tm.sub(tm.ONE, y_))), 2)(g, y))


@handler("threshold_backward")
def _thr_bw(eng, func, args, kwargs, out, pre):
    g, x = obj(pre.a(0)), obj(pre.a(1))
    thr = tm.lift(args[2])
    eng.set_terms(out, vec(lambda g_, x_: tm.ite(tm.le(x_, thr), tm.ZERO, g_), 2)(g, x))


@handler("fill")
def _fill(eng, func, args, kwargs, out, pre):
    eng.set_terms(out, obj(pre.a(1, "value"), out.shape))


@handler("zero")
def _zero(eng, func, args, kwargs, out, pre):
    eng.clear_terms(out)


@handler("copy")
def _copy(eng, func, args, kwargs, out, pre):
    dst, src = args[0], args[1]
    s = obj(pre.a(1))
    s = _convert(s, src.dtype if isinstance(src, torch.Tensor) else None, dst.dtype)
    eng.set_terms(out, np.broadcast_to(s, tuple(out.shape)))


def _convert(arr: np.ndarray, src_dtype, dst_dtype) -> np.ndarray:
    if dst_dtype == torch.bool:
        return vec(tm.boo, 1)(arr)
    if src_dtype == torch.bool:
        arr = vec(tm.num, 1)(arr)
        return arr
    if src_dtype is not None and src_dtype.is_floating_point and not dst_dtype.is_floating_point:
        return vec(tm.trunc_, 1)(arr)
    return vec(tm.num, 1)(arr)


@handler("_to_copy")
def _to_copy(eng, func, args, kwargs, out, pre):
    eng.set_terms(out, _convert(obj(pre.a(0)), args[0].dtype, out.dtype))


@handler("type_as", "to")
def _to(eng, func, args, kwargs, out, pre):
    eng.set_terms(out, _convert(obj(pre.a(0)), args[0].dtype, out.dtype))


# ------------------------------------------------------------------ reductions
def _norm_dims(dims, ndim):
    if dims is None or (isinstance(dims, (list, tuple)) and len(dims) == 0):
        return tuple(range(ndim))
    if isinstance(dims, int):
        dims = (dims,)
    return tuple(sorted(d % ndim if ndim else 0 for d in dims))


def _reduce(arr: np.ndarray, dims, keepdim, fold):
    nd = arr.ndim
    if nd == 0:
        r = np.empty((), dtype=object)
        r[()] = fold([arr[()]])
        return r
    dims = _norm_dims(dims, nd)
    keep = [d for d in range(nd) if d not in dims]
    perm = keep + list(dims)
    a = np.transpose(arr, perm)
    oshape = a.shape[: len(keep)]
    a = a.reshape(int(np.prod(oshape, dtype=int)), -1)
    res = np.empty(a.shape[0], dtype=object)
    for i in range(a.shape[0]):
        res[i] = fold(list(a[i]))
    res = res.reshape(oshape)
    if keepdim:
        for d in dims:
            res = np.expand_dims(res, d)
    return res


def _fold_sum(xs):
    return tm.addn(xs)


def _fold_prod(xs):
    r = tm.ONE
    for x in xs:
        r = tm.mul(r, x)
    return r


def _fold_max(xs):
    r = tm.num(xs[0])
    for x in xs[1:]:
        r = tm.max_(r, x)
    return r


def _fold_min(xs):
    r = tm.num(xs[0])
    for x in xs[1:]:
        r = tm.min_(r, x)
    return r


def _dims_keep(args, kwargs, pos=1):
    dims = args[pos] if len(args) > pos else kwargs.get("dim", None)
    keep = args[pos + 1] if len(args) > pos + 1 else kwargs.get("keepdim", False)
    return dims, keep


@handler("sum")
def _sum(eng, func, args, kwargs, out, pre):
    dims, keep = _dims_keep(args, kwargs)
    if func._overloadname == "default":
        dims, keep = None, False
    eng.set_terms(out, _reduce(obj(pre.a(0)), dims, keep, _fold_sum).reshape(tuple(out.shape)))


@handler("mean")
def _mean(eng, func, args, kwargs, out, pre):
    dims, keep = _dims_keep(args, kwargs)
    if func._overloadname == "default":
        dims, keep = None, False
    a = obj(pre.a(0))
    nd = _norm_dims(dims, a.ndim)
    cnt = int(np.prod([a.shape[d] for d in nd], dtype=int)) if a.ndim else 1
    r = _reduce(a, dims, keep, lambda xs: tm.mul(tm.const(Fraction(1, cnt)), tm.addn(xs)))
    eng.set_terms(out, r.reshape(tuple(out.shape)))


@handler("prod")
def _prod(eng, func, args, kwargs, out, pre):
    if func._overloadname == "default":
        dims, keep = None, False
    else:
        dims, keep = _dims_keep(args, kwargs)
    eng.set_terms(out, _reduce(obj(pre.a(0)), dims, keep, _fold_prod).reshape(tuple(out.shape)))


@handler("amax", "amin")
def _amax(eng, func, args, kwargs, out, pre):
    dims, keep = _dims_keep(args, kwargs)
    f = _fold_max if base_name(func) == "amax" else _fold_min
    eng.set_terms(out, _reduce(obj(pre.a(0)), dims, keep, f).reshape(tuple(out.shape)))


@handler("max", "min")
def _maxmin(eng, func, args, kwargs, out, pre):
    nm = base_name(func)
    f = _fold_max if nm == "max" else _fold_min
    ov = func._overloadname
    if ov == "default":
        eng.set_terms(out, _reduce(obj(pre.a(0)), None, False, f).reshape(tuple(out.shape)))
    elif ov == "other":
        eng.set_terms(out, vec(tm.max_ if nm == "max" else tm.min_, 2)(obj(pre.a(0)), obj(pre.a(1))))
    elif ov == "dim":
        dim = args[1]
        keep = args[2] if len(args) > 2 else kwargs.get("keepdim", False)
        vals, idx = out
        eng.set_terms(vals, _reduce(obj(pre.a(0)), dim, keep, f).reshape(tuple(vals.shape)))
        _argext_pc(eng, obj(pre.a(0)), idx, dim, keep, nm == "max")
    else:
        raise UnsupportedOp(str(func))


def _argext_pc(eng, a, idx, dim, keep, is_max):
    """indices are data-dependent: record that the witness index attains the extremum."""
    with eng.suspended():
        ii = idx.detach().cpu().numpy()
    nd = a.ndim
    dim = dim % nd if nd else 0
    if not keep and nd:
        ii = np.expand_dims(ii, dim)
    am = np.moveaxis(a, dim, -1)
    im = np.moveaxis(ii, dim, -1)[..., 0]
    for pos in np.ndindex(*am.shape[:-1]):
        row = am[pos]
        k = int(im[pos])
        for j in range(len(row)):
            if j != k:
                c = tm.le(row[j], row[k]) if is_max else tm.le(row[k], row[j])
                eng.branch(c, True)


@handler("argmax", "argmin")
def _argmax(eng, func, args, kwargs, out, pre):
    dim = args[1] if len(args) > 1 else kwargs.get("dim", None)
    keep = args[2] if len(args) > 2 else kwargs.get("keepdim", False)
    a = obj(pre.a(0))
    if dim is None:
        a = a.reshape(-1)
        dim = 0
        keep = False
        with eng.suspended():
            idx = out.detach().reshape(())
        _argext_pc(eng, a, idx, 0, False, base_name(func) == "argmax")
    else:
        _argext_pc(eng, a, out, dim, keep, base_name(func) == "argmax")


@handler("any", "all")
def _anyall(eng, func, args, kwargs, out, pre):
    f = (lambda xs: tm.or_(*[tm.boo(x) for x in xs])) if base_name(func) == "any" else (lambda xs: tm.and_(*[tm.boo(x) for x in xs]))
    if func._overloadname == "default":
        dims, keep = None, False
    else:
        dims, keep = _dims_keep(args, kwargs)
    eng.set_terms(out, _reduce(obj(pre.a(0)), dims, keep, f).reshape(tuple(out.shape)))


@handler("var", "std", "var_mean", "std_mean")
def _var(eng, func, args, kwargs, out, pre):
    nm = base_name(func)
    a = obj(pre.a(0))
    ov = func._overloadname
    dims, keep, corr = None, False, 1
    if ov == "correction":
        dims = args[1] if len(args) > 1 else kwargs.get("dim", None)
        corr = kwargs.get("correction", 1)
        corr = 1 if corr is None else corr
        keep = kwargs.get("keepdim", False)
    elif ov == "dim":
        dims = args[1]
        corr = 1 if (args[2] if len(args) > 2 else kwargs.get("unbiased", True)) else 0
        keep = args[3] if len(args) > 3 else kwargs.get("keepdim", False)
    elif ov == "default":
        corr = 1 if (args[1] if len(args) > 1 else kwargs.get("unbiased", True)) else 0
    else:
        raise UnsupportedOp(str(func))
    nd = _norm_dims(dims, a.ndim)
    cnt = int(np.prod([a.shape[d] for d in nd], dtype=int)) if a.ndim else 1

    def mean_f(xs):
        return tm.mul(tm.const(Fraction(1, cnt)), tm.addn(xs))

    def var_f(xs):
        m = mean_f(xs)
        return tm.mul(tm.const(Fraction(1, cnt - corr)), tm.addn([tm.mul(tm.sub(x, m), tm.sub(x, m)) for x in xs]))

    v = _reduce(a, dims, keep, var_f)
    if nm.startswith("std"):
        v = vec(tm.sqrt_, 1)(v)
    if nm.endswith("_mean"):
        eng.set_terms(out[0], v.reshape(tuple(out[0].shape)))
        eng.set_terms(out[1], _reduce(a, dims, keep, mean_f).reshape(tuple(out[1].shape)))
    else:
        eng.set_terms(out, v.reshape(tuple(out.shape)))


@handler("linalg_vector_norm", "norm")
def _vnorm(eng, func, args, kwargs, out, pre):
    a = obj(pre.a(0))
    if base_name(func) == "linalg_vector_norm":
        p = args[1] if len(args) > 1 else kwargs.get("ord", 2)
        dims = args[2] if len(args) > 2 else kwargs.get("dim", None)
        keep = args[3] if len(args) > 3 else kwargs.get("keepdim", False)
    else:
        p = args[1] if len(args) > 1 else 2
        dims = args[2] if len(args) > 2 else None
        keep = args[3] if len(args) > 3 else False
    p = 2 if p is None else p
    if p == 2:
        f = lambda xs: tm.sqrt_(tm.addn([tm.mul(x, x) for x in xs]))
    elif p == 1:
        f = lambda xs: tm.addn([tm.abs_(x) for x in xs])
    elif p == math.inf:
        f = lambda xs: _fold_max([tm.abs_(x) for x in xs])
    else:
        raise UnsupportedOp(f"vector norm ord={p}")
    eng.set_terms(out, _reduce(a, dims, keep, f).reshape(tuple(out.shape)))


@handler("cumsum")
def _cumsum(eng, func, args, kwargs, out, pre):
    a = obj(pre.a(0))
    dim = args[1]
    am = np.moveaxis(a, dim, -1)
    res = np.empty(am.shape, dtype=object)
    for pos in np.ndindex(*am.shape[:-1]):
        acc = tm.ZERO
        for j in range(am.shape[-1]):
            acc = tm.add(acc, am[pos][j])
            res[pos + (j,)] = acc
    eng.set_terms(out, np.moveaxis(res, -1, dim))


@handler("cumprod")
def _cumprod(eng, func, args, kwargs, out, pre):
    a = obj(pre.a(0))
    dim = args[1]
    am = np.moveaxis(a, dim, -1)
    res = np.empty(am.shape, dtype=object)
    for pos in np.ndindex(*am.shape[:-1]):
        acc = tm.ONE
        for j in range(am.shape[-1]):
            acc = tm.mul(acc, am[pos][j])
            res[pos + (j,)] = acc
    eng.set_terms(out, np.moveaxis(res, -1, dim))


# ------------------------------------------------------------------ linear algebra
def _matmul(a: np.ndarray, b: np.ndarray) -> np.ndarray:
    # a: (..., n, k), b: (..., k, m)
    n, k = a.shape[-2:]
    m = b.shape[-1]
    batch = np.broadcast_shapes(a.shape[:-2], b.shape[:-2])
    a = np.broadcast_to(a, batch + (n, k))
    b = np.broadcast_to(b, batch + (k, m))
    res = np.empty(batch + (n, m), dtype=object)
    for pos in np.ndindex(*batch):
        A, Bm = a[pos], b[pos]
        for i in range(n):
            for j in range(m):
                res[pos + (i, j)] = tm.addn([tm.mul(A[i, l], Bm[l, j]) for l in range(k)])
    return res


@handler("mm", "bmm")
def _mm(eng, func, args, kwargs, out, pre):
    eng.set_terms(out, _matmul(obj(pre.a(0)), obj(pre.a(1))))


@handler("mv")
def _mv(eng, func, args, kwargs, out, pre):
    eng.set_terms(out, _matmul(obj(pre.a(0)), obj(pre.a(1))[:, None])[:, 0])


@handler("dot", "vdot")
def _dot(eng, func, args, kwargs, out, pre):
    a, b = obj(pre.a(0)), obj(pre.a(1))
    r = np.empty((), dtype=object)
    r[()] = tm.addn([tm.mul(x, y) for x, y in zip(a, b)])
    eng.set_terms(out, r)


@handler("addmm")
def _addmm(eng, func, args, kwargs, out, pre):
    beta = tm.lift(kwargs.get("beta", 1))
    alpha = tm.lift(kwargs.get("alpha", 1))
    c = obj(pre.a(0))
    p = _matmul(obj(pre.a(1)), obj(pre.a(2)))
    eng.set_terms(out, vec(lambda x, y: tm.add(tm.mul(beta, x), tm.mul(alpha, y)), 2)(np.broadcast_to(c, p.shape), p))


@handler("baddbmm", "addbmm")
def _baddbmm(eng, func, args, kwargs, out, pre):
    if base_name(func) != "baddbmm":
        raise UnsupportedOp("addbmm")
    beta = tm.lift(kwargs.get("beta", 1))
    alpha = tm.lift(kwargs.get("alpha", 1))
    c = obj(pre.a(0))
    p = _matmul(obj(pre.a(1)), obj(pre.a(2)))
    eng.set_terms(out, vec(lambda x, y: tm.add(tm.mul(beta, x), tm.mul(alpha, y)), 2)(np.broadcast_to(c, p.shape), p))


@handler("addmv")
def _addmv(eng, func, args, kwargs, out, pre):
    beta = tm.lift(kwargs.get("beta", 1))
    alpha = tm.lift(kwargs.get("alpha", 1))
    c = obj(pre.a(0))
    p = _matmul(obj(pre.a(1)), obj(pre.a(2))[:, None])[:, 0]
    eng.set_terms(out, vec(lambda x, y: tm.add(tm.mul(beta, x), tm.mul(alpha, y)), 2)(np.broadcast_to(c, p.shape), p))


def _det(M: np.ndarray) -> T:
    n = M.shape[0]
    if n == 1:
        return M[0, 0]
    if n == 2:
        return tm.sub(tm.mul(M[0, 0], M[1, 1]), tm.mul(M[0, 1], M[1, 0]))
    terms_ = []
    for j in range(n):
        minor = np.delete(np.delete(M, 0, 0), j, 1)
        t = tm.mul(M[0, j], _det(minor))
        terms_.append(t if j % 2 == 0 else tm.neg(t))
    return tm.addn(terms_)


def _inverse(M: np.ndarray) -> np.ndarray:
    n = M.shape[0]
    d = _det(M)
    res = np.empty((n, n), dtype=object)
    if n == 1:
        res[0, 0] = tm.div(tm.ONE, d)
        return res
    for i in range(n):
        for j in range(n):
            minor = np.delete(np.delete(M, j, 0), i, 1)
            c = _det(minor)
            if (i + j) % 2:
                c = tm.neg(c)
            res[i, j] = tm.div(c, d)
    return res


def _batched(arr: np.ndarray, f, out_tail):
    batch = arr.shape[:-2]
    res = np.empty(batch + out_tail, dtype=object)
    for pos in np.ndindex(*batch):
        r = f(arr[pos])
        if out_tail:
            res[pos] = r
        else:
            res[pos] = r
    return res


@handler("_linalg_det")
def _linalg_det(eng, func, args, kwargs, out, pre):
    a = obj(pre.a(0))
    if a.shape[-1] > 4:
        raise UnsupportedOp("det of matrix larger than 4x4")
    eng.set_terms(out[0], _batched(a, _det, ()).reshape(tuple(out[0].shape)))


@handler("linalg_inv_ex")
def _linalg_inv(eng, func, args, kwargs, out, pre):
    a = obj(pre.a(0))
    n = a.shape[-1]
    if n > 4:
        raise UnsupportedOp("inverse of matrix larger than 4x4")
    eng.set_terms(out[0], _batched(a, _inverse, (n, n)))


@handler("_linalg_solve_ex")
def _linalg_solve(eng, func, args, kwargs, out, pre):
    a, b = obj(pre.a(0)), obj(pre.a(1))
    left = kwargs.get("left", True)
    if not left or a.shape[-1] > 4:
        raise UnsupportedOp("linalg_solve variant")
    n = a.shape[-1]
    inv = _batched(a, _inverse, (n, n))
    vecmode = b.ndim == a.ndim - 1
    bb = b[..., None] if vecmode else b
    r = _matmul(inv, bb)
    eng.set_terms(out[0], r[..., 0] if vecmode else r)


@handler("linalg_cross")
def _cross(eng, func, args, kwargs, out, pre):
    a, b = obj(pre.a(0)), obj(pre.a(1))
    dim = kwargs.get("dim", -1)
    shape = np.broadcast_shapes(a.shape, b.shape)
    a = np.moveaxis(np.broadcast_to(a, shape), dim, -1)
    b = np.moveaxis(np.broadcast_to(b, shape), dim, -1)
    res = np.empty(a.shape, dtype=object)
    for pos in np.ndindex(*a.shape[:-1]):
        x, y = a[pos], b[pos]
        res[pos + (0,)] = tm.sub(tm.mul(x[1], y[2]), tm.mul(x[2], y[1]))
        res[pos + (1,)] = tm.sub(tm.mul(x[2], y[0]), tm.mul(x[0], y[2]))
        res[pos + (2,)] = tm.sub(tm.mul(x[0], y[1]), tm.mul(x[1], y[0]))
    eng.set_terms(out, np.moveaxis(res, -1, dim))


@handler("trace")
def _trace(eng, func, args, kwargs, out, pre):
    a = obj(pre.a(0))
    r = np.empty((), dtype=object)
    r[()] = tm.addn([a[i, i] for i in range(min(a.shape))])
    eng.set_terms(out, r)


# ------------------------------------------------------------------ data movement via element ids
DATA_ARGS = {
    "index_put": (0, 2),
    "_unsafe_index_put": (0, 2),
    "slice_scatter": (0, 1),
    "select_scatter": (0, 1),
    "diagonal_scatter": (0, 1),
    "as_strided_scatter": (0, 1),
    "index_copy": (0, 3),
    "index_fill": (0,),
    "scatter": (0, 3),
    "masked_scatter": (0, 2),
    "slice_backward": (0,),
    "select_backward": (0,),
    "unfold_backward": None,
    "embedding": (0,),
}
DATA_KW = {"index_put": ("values",), "scatter": ("src",), "slice_scatter": ("src",), "select_scatter": ("src",)}


def _moves(eng, func, args, kwargs, out, pre):
    """Generic transfer function for pure data movement: run the same ATen op on tensors of
    element ids; every output element is either an input element (id > 0) or a constant (id 0)."""
    name = base_name(func)
    data_pos = DATA_ARGS.get(name, (0,))
    table: List[Any] = [None]
    targs = list(args)
    tkw = dict(kwargs)

    def ids_for(i_or_k, concrete, pre_terms):
        def mk(t, terms_):
            base = len(table)
            table.extend(terms_.reshape(-1))
            return torch.arange(base, base + t.numel(), dtype=torch.float64).reshape(t.shape)

        if isinstance(concrete, torch.Tensor):
            return mk(concrete, pre_terms)
        if isinstance(concrete, (list, tuple)):
            return type(concrete)(mk(c, p) if isinstance(c, torch.Tensor) else c for c, p in zip(concrete, pre_terms))
        return concrete

    with eng.suspended():
        for p in data_pos:
            if p < len(args):
                targs[p] = ids_for(p, args[p], pre.args[p])
        for k in DATA_KW.get(name, ()):
            if k in tkw:
                tkw[k] = ids_for(k, kwargs[k], pre.kwargs[k])
        # other tensor arguments (indices, masks) must be concrete
        for i, a in enumerate(targs):
            if i in data_pos:
                continue
            for x in tree_flatten(a)[0]:
                if isinstance(x, torch.Tensor) and eng.has(x):
                    raise UnsupportedOp(f"{func}: symbolic index/mask argument {i}")
        for k in ("dtype",):
            if k in tkw and tkw[k] is not None:
                tkw[k] = torch.float64
        if name in ("index_put", "_unsafe_index_put") and (tkw.get("accumulate") or (len(args) > 3 and args[3])):
            raise UnsupportedOp("index_put with accumulate")
        if name in ("constant_pad_nd",):
            if len(targs) > 2:
                targs[2] = 0.0
            if "value" in tkw:
                tkw["value"] = 0.0
        if func._schema.name.split("::")[-1].endswith("_") and name not in ("_",):
            # in-place variant: run the functional form on ids
            fn_ = getattr(getattr(aten, name), func._overloadname, None)
            if fn_ is None:
                raise UnsupportedOp(f"no functional variant of {func}")
            iout = fn_(*targs, **tkw)
        else:
            iout = func(*targs, **tkw)
    outs = [o for o in tree_flatten(out)[0] if isinstance(o, torch.Tensor)]
    iouts = [o for o in tree_flatten(iout)[0] if isinstance(o, torch.Tensor)]
    for o, io in zip(outs, iouts):
        if o.numel() == 0:
            continue
        with eng.suspended():
            flat = io.reshape(-1).round().long().tolist()
            od = o.detach()
            ovals = od.reshape(-1).tolist() if od.is_contiguous() else od.contiguous().reshape(-1).tolist()
        isf, isb = o.dtype.is_floating_point, o.dtype == torch.bool
        res = np.empty(len(flat), dtype=object)
        for i, k in enumerate(flat):
            res[i] = table[k] if k > 0 else eng._lift(ovals[i], isf, isb)
        eng.set_terms(o, res.reshape(tuple(o.shape)))


for _n in (
    "clone", "cat", "stack", "repeat", "flip", "roll", "index", "_unsafe_index", "index_select", "gather", "constant_pad_nd",
    "replication_pad1d", "replication_pad2d", "replication_pad3d", "reflection_pad1d", "reflection_pad2d", "reflection_pad3d",
    "tril", "triu", "diag_embed", "diag", "diagonal_copy", "slice_scatter", "select_scatter", "index_put", "_unsafe_index_put",
    "expand_copy",
    "upsample_nearest1d", "upsample_nearest2d", "upsample_nearest3d", "_upsample_nearest_exact1d", "_upsample_nearest_exact2d",
    "_upsample_nearest_exact3d", "slice_backward", "select_backward", "narrow_copy", "permute_copy", "view_copy", "unfold_copy",
    "im2col", "pixel_shuffle", "pixel_unshuffle", "rot90", "take", "take_along_dim", "repeat_interleave", "_pin_memory",
    "contiguous", "hstack", "vstack", "block_diag", "index_copy", "movedim", "unsqueeze_copy", "squeeze_copy", "t_copy",
    "transpose_copy", "alias_copy", "detach_copy", "lift_fresh_copy", "as_strided_copy", "split_with_sizes_copy", "unbind_copy",
    "_reshape_alias", "reshape", "flatten", "max_pool2d_with_indices_backward", "embedding", "channel_shuffle", "narrow",
    "constant_pad_nd_backward", "tile", "expand", "masked_select",
):
    HANDLERS[_n] = _moves


@handler("lift_fresh", "detach", "alias", "_unsafe_view", "view", "positive", "_conj", "resolve_conj", "resolve_neg")
def _noop(eng, func, args, kwargs, out, pre):
    return


_noop.no_pre = True


@handler("empty_like", "new_empty", "new_zeros", "new_ones", "new_full", "zeros_like", "ones_like", "full_like")
def _empty(eng, func, args, kwargs, out, pre):
    eng.clear_terms(out)


_empty.no_pre = True


# ------------------------------------------------------------------ linear probing (op linear in argument 0)
def _probe_linear(eng, func, args, kwargs, out, pre, pos=0, affine=True):
    """out = J x + f(0), J obtained from the real kernel on one-hot inputs in float64."""
    x = args[pos]
    xt = obj(pre.args[pos]).reshape(-1)
    n = x.numel()
    with eng.suspended():
        def run(v):
            a = list(args)
            a[pos] = v
            a = [(t.double() if isinstance(t, torch.Tensor) and t.dtype.is_floating_point else t) for t in a]
            kw = {k: (t.double() if isinstance(t, torch.Tensor) and t.dtype.is_floating_point else t) for k, v_ in kwargs.items() for t in [v_]}
            r = func(*a, **kw)
            return r if isinstance(r, torch.Tensor) else r[0]

        zero = torch.zeros(x.shape, dtype=torch.float64)
        f0 = run(zero).reshape(-1)
        cols = []
        for j in range(n):
            e = torch.zeros(n, dtype=torch.float64)
            e[j] = 1.0
            cols.append((run(e.reshape(x.shape)).reshape(-1) - f0))
        J = torch.stack(cols, dim=1) if cols else torch.zeros((f0.numel(), 0), dtype=torch.float64)
        Jn = J.numpy()
        f0n = f0.numpy()
    o = out if isinstance(out, torch.Tensor) else out[0]
    res = np.empty(Jn.shape[0], dtype=object)
    ccache: Dict[float, T] = {}

    def c(v):
        t = ccache.get(v)
        if t is None:
            t = ccache[v] = tm.T("c", (tm.snap32(v),), tm.R)
        return t

    for i in range(Jn.shape[0]):
        nz = np.nonzero(np.abs(Jn[i]) > 2.0**-22)[0]
        parts = [tm.mul(c(float(Jn[i, j])), xt[j]) for j in nz]
        if affine and abs(f0n[i]) > 2.0**-22:
            parts.append(c(float(f0n[i])))
        res[i] = tm.addn(parts)
    eng.set_terms(o, res.reshape(tuple(o.shape)))


for _n in (
    "upsample_linear1d", "upsample_bilinear2d", "upsample_trilinear3d", "_upsample_bilinear2d_aa", "upsample_bicubic2d",
    "avg_pool1d", "avg_pool2d", "avg_pool3d", "_adaptive_avg_pool2d", "_adaptive_avg_pool3d", "adaptive_avg_pool1d",
    "upsample_linear1d_backward", "upsample_bilinear2d_backward", "upsample_trilinear3d_backward",
    "avg_pool2d_backward", "avg_pool3d_backward", "reflection_pad1d_backward", "reflection_pad2d_backward",
    "reflection_pad3d_backward", "replication_pad1d_backward", "replication_pad2d_backward", "replication_pad3d_backward",
):
    HANDLERS[_n] = _probe_linear


# ------------------------------------------------------------------ convolution
@handler("convolution")
def _convolution(eng, func, args, kwargs, out, pre):
    inp, weight, bias, stride, padding, dilation, transposed, output_padding, groups = (list(args) + [None] * 9)[:9]
    w_sym = eng.has(weight) or (bias is not None and eng.has(bias))
    if not w_sym:
        return _probe_linear(eng, func, args, kwargs, out, pre, pos=0)
    if not eng.has(inp):
        # linear in the weight
        if bias is None or not eng.has(bias):
            return _probe_linear(eng, func, args, kwargs, out, pre, pos=1)
    x = obj(pre.args[0])
    w = obj(pre.args[1])
    b = obj(pre.args[2]) if bias is not None else None
    nd = x.ndim - 2
    N, Cin = x.shape[:2]
    osz = tuple(out.shape[2:])
    Cout = out.shape[1]
    res = np.empty(tuple(out.shape), dtype=object)
    ks = w.shape[2:]
    if not transposed:
        cin_g = Cin // groups
        cout_g = Cout // groups
        for n in range(N):
            for co in range(Cout):
                g = co // cout_g
                for opos in np.ndindex(*osz):
                    parts = []
                    for ci in range(cin_g):
                        for kpos in np.ndindex(*ks):
                            ipos = tuple(opos[d] * stride[d] - padding[d] + kpos[d] * dilation[d] for d in range(nd))
                            if all(0 <= ipos[d] < x.shape[2 + d] for d in range(nd)):
                                parts.append(tm.mul(x[(n, g * cin_g + ci) + ipos], w[(co, ci) + kpos]))
                    if b is not None:
                        parts.append(b[co])
                    res[(n, co) + opos] = tm.addn(parts)
    else:
        # weight: (Cin, Cout/groups, *ks)
        cout_g = w.shape[1]
        cin_g = Cin // groups
        acc: Dict[tuple, list] = {}
        for n in range(N):
            for ci in range(Cin):
                g = ci // cin_g
                for ipos in np.ndindex(*x.shape[2:]):
                    xv = x[(n, ci) + ipos]
                    for cog in range(cout_g):
                        co = g * cout_g + cog
                        for kpos in np.ndindex(*ks):
                            opos = tuple(ipos[d] * stride[d] - padding[d] + kpos[d] * dilation[d] for d in range(nd))
                            if all(0 <= opos[d] < osz[d] for d in range(nd)):
                                acc.setdefault((n, co) + opos, []).append(tm.mul(xv, w[(ci, cog) + kpos]))
        for pos in np.ndindex(*res.shape):
            parts = acc.get(pos, [])
            if b is not None:
                parts = parts + [b[pos[1]]]
            res[pos] = tm.addn(parts)
    eng.set_terms(out, res)


# ------------------------------------------------------------------ grid_sampler
def _unnormalize(c: T, size: int, align_corners: bool) -> T:
    if align_corners:
        return tm.mul(tm.const(Fraction(size - 1, 2)), tm.add(c, tm.ONE))
    return tm.mul(tm.const(Fraction(1, 2)), tm.sub(tm.mul(tm.add(c, tm.ONE), tm.const(size)), tm.ONE))


@handler("grid_sampler_2d", "grid_sampler_3d")
def _grid_sampler(eng, func, args, kwargs, out, pre):
    inp, grid, mode, pad, ac = args[:5]
    if not eng.has(grid):
        # linear in the input; coefficients taken from the real kernel (any mode / padding)
        return _probe_linear(eng, func, args, kwargs, out, pre, pos=0, affine=False)
    if mode != 0:
        return _grid_sampler_nearest(eng, func, args, kwargs, out, pre)
    if pad not in (0, 1):
        raise UnsupportedOp("grid_sampler reflection padding with symbolic grid")
    x = obj(pre.args[0])
    g = obj(pre.args[1])
    nd = x.ndim - 2
    N, C = x.shape[:2]
    sizes = x.shape[2:]  # (D,)H,W ; grid last dim ordered (x, y, z) -> W, H, D
    osz = g.shape[1:-1]
    res = np.empty((N, C) + tuple(osz), dtype=object)
    cands = list(itertools.product(*[range(max(sizes[d] - 1, 1)) for d in range(nd)]))
    for n in range(N):
        for opos in np.ndindex(*osz):
            # continuous index per tensor dim d (0 = slowest), before any clamping
            raw = [_unnormalize(g[(n,) + opos + (nd - 1 - d,)], sizes[d], bool(ac)) for d in range(nd)]
            wraw = [eng.evalf(ci) for ci in raw]
            if any(w != w for w in wraw):
                raise UnsupportedOp("grid_sampler: non-finite witness coordinate")

            def poly(cidx, cell_, c):
                parts = []
                for corner in itertools.product((0, 1), repeat=nd):
                    idx = tuple(cell_[d] + corner[d] for d in range(nd))
                    wgt = tm.ONE
                    for d in range(nd):
                        frac = tm.sub(cidx[d], tm.const(cell_[d]))
                        wgt = tm.mul(wgt, frac if corner[d] else tm.sub(tm.ONE, frac))
                    if all(0 <= idx[d] < sizes[d] for d in range(nd)):
                        parts.append(tm.mul(wgt, x[(n, c) + idx]))
                    elif pad == 1:
                        cl = tuple(min(max(idx[d], 0), sizes[d] - 1) for d in range(nd))
                        parts.append(tm.mul(wgt, x[(n, c) + cl]))
                return tm.addn(parts)

            inside = all(0 <= wraw[d] <= sizes[d] - 1 for d in range(nd))
            collapsed = False
            if eng.gs_mode == "auto" and eng.lemma_solver is not None and inside and all(s_ > 1 for s_ in sizes):
                # lemma chaining: if every candidate cell yields the same polynomial the case split vanishes
                wc = tuple(min(max(int(math.floor(wraw[d])), 0), sizes[d] - 2) for d in range(nd))
                ok = True
                polys = []
                for c in range(C):
                    p0 = poly(raw, wc, c)
                    polys.append(p0)
                    for cc in cands:
                        if cc != wc and not eng.lemma_solver(poly(raw, cc, c), p0):
                            ok = False
                            break
                    if not ok:
                        break
                if ok:
                    collapsed = True
                    for d in range(nd):
                        # claim restricted to the closed hull of the sample centres (zeros padding blends with 0
                        # outside of it, border padding clamps; inside, both are the identity)
                        eng.assume(tm.le(tm.ZERO, raw[d]))
                        eng.assume(tm.le(raw[d], tm.const(sizes[d] - 1)))
                    for c in range(C):
                        res[(n, c) + opos] = polys[c]
                    eng.gs_lemmas["collapsed"] += 1
            if not collapsed:
                # witness-cell mode: the clamp of border padding and the interpolation cell are resolved at the
                # witness and recorded as path conditions on the raw coordinate (no ite terms are generated)
                cidx, cell = [], []
                for d in range(nd):
                    w = wraw[d]
                    hi = sizes[d] - 1
                    if pad == 1 and w < 0:
                        eng.branch(tm.le(raw[d], tm.ZERO), True, kind="cell")
                        cidx.append(tm.ZERO)
                        cell.append(0)
                    elif pad == 1 and w > hi:
                        eng.branch(tm.le(tm.const(hi), raw[d]), True, kind="cell")
                        cidx.append(tm.const(hi))
                        cell.append(max(hi - 1, 0))
                    else:
                        k = int(math.floor(w))
                        if pad == 1 and k >= hi and hi > 0:
                            k = hi - 1  # w == size-1 exactly: last cell, weight 1 on its upper corner
                            eng.branch(tm.le(tm.const(k), raw[d]), True, kind="cell")
                            eng.branch(tm.le(raw[d], tm.const(k + 1)), True, kind="cell")
                        else:
                            eng.branch(tm.le(tm.const(k), raw[d]), True, kind="cell")
                            eng.branch(tm.lt(raw[d], tm.const(k + 1)), True, kind="cell")
                        cidx.append(raw[d])
                        cell.append(k)
                for c in range(C):
                    res[(n, c) + opos] = poly(cidx, cell, c)
                eng.gs_lemmas["witness_cell"] += 1
    eng.set_terms(out, res)


def _grid_sampler_nearest(eng, func, args, kwargs, out, pre):
    inp, grid, mode, pad, ac = args[:5]
    if mode != 1 or pad not in (0, 1):
        raise UnsupportedOp("grid_sampler mode/padding with symbolic grid")
    x = obj(pre.args[0])
    g = obj(pre.args[1])
    nd = x.ndim - 2
    N, C = x.shape[:2]
    sizes = x.shape[2:]
    osz = g.shape[1:-1]
    res = np.empty((N, C) + tuple(osz), dtype=object)
    half = tm.const(Fraction(1, 2))
    for n in range(N):
        for opos in np.ndindex(*osz):
            idx = []
            inside = True
            for d in range(nd):
                ci = _unnormalize(g[(n,) + opos + (nd - 1 - d,)], sizes[d], bool(ac))
                if pad == 1:
                    ci = tm.min_(tm.max_(ci, tm.ZERO), tm.const(sizes[d] - 1))
                w = eng.evalf(ci)
                k = int(round(w))  # python round = half-to-even like nearbyint
                # witness cell: k - 1/2 < ci < k + 1/2 (ties excluded: the claim does not cover them)
                eng.branch(tm.lt(tm.sub(tm.const(k), half), ci), True, kind="cell")
                eng.branch(tm.lt(ci, tm.add(tm.const(k), half)), True, kind="cell")
                if not (0 <= k < sizes[d]):
                    inside = False
                idx.append(k)
            for c in range(C):
                res[(n, c) + opos] = x[(n, c) + tuple(idx)] if inside else tm.ZERO
    eng.set_terms(out, res)


# ------------------------------------------------------------------ data-dependent control flow
@handler("_local_scalar_dense", "item")
def _item(eng, func, args, kwargs, out, pre):
    e = obj(pre.a(0)).reshape(-1)[0]
    eng.concretize(e, out)


@handler("is_nonzero")
def _is_nonzero(eng, func, args, kwargs, out, pre):
    e = obj(pre.a(0)).reshape(-1)[0]
    eng.branch(tm.boo(e), bool(out))


@handler("equal")
def _equal(eng, func, args, kwargs, out, pre):
    a, b = obj(pre.a(0)), obj(pre.a(1))
    if a.shape != b.shape:
        return
    c = tm.and_(*[_eqf(x, y) for x, y in zip(a.reshape(-1), b.reshape(-1))])
    eng.branch(c, bool(out))


def allclose_term(a: np.ndarray, b: np.ndarray, rtol, atol) -> T:
    shape = np.broadcast_shapes(a.shape, b.shape)
    a = np.broadcast_to(a, shape).reshape(-1)
    b = np.broadcast_to(b, shape).reshape(-1)
    rt, at = tm.const(rtol), tm.const(atol)
    cs = []
    for x, y in zip(a, b):
        cs.append(tm.le(tm.abs_(tm.sub(x, y)), tm.add(at, tm.mul(rt, tm.abs_(y)))))
    return tm.and_(*cs)


@handler("allclose")
def _allclose(eng, func, args, kwargs, out, pre):
    rtol = kwargs.get("rtol", args[2] if len(args) > 2 else 1e-5)
    atol = kwargs.get("atol", args[3] if len(args) > 3 else 1e-8)
    a, b = obj(pre.a(0)), obj(pre.a(1))
    shape = np.broadcast_shapes(a.shape, b.shape)
    strong = tm.and_(*[_eqf(x, y) for x, y in zip(np.broadcast_to(a, shape).reshape(-1), np.broadcast_to(b, shape).reshape(-1))])
    eng.branch(allclose_term(a, b, rtol, atol), bool(out), strong=strong)


@handler("isclose")
def _isclose(eng, func, args, kwargs, out, pre):
    rtol = kwargs.get("rtol", args[2] if len(args) > 2 else 1e-5)
    atol = kwargs.get("atol", args[3] if len(args) > 3 else 1e-8)
    rt, at = tm.const(rtol), tm.const(atol)
    f = lambda x, y: tm.le(tm.abs_(tm.sub(x, y)), tm.add(at, tm.mul(rt, tm.abs_(y))))
    eng.set_terms(out, vec(f, 2)(obj(pre.a(0)), obj(pre.a(1))))


@handler("nonzero", "nonzero_static")
def _nonzero(eng, func, args, kwargs, out, pre):
    a = obj(pre.a(0)).reshape(-1)
    with eng.suspended():
        vals = args[0].detach().reshape(-1).tolist()
    for e, v in zip(a, vals):
        eng.branch(tm.boo(e), bool(v))


@handler("sort", "topk", "unique", "_unique2", "argsort", "unique_dim", "unique_consecutive", "kthvalue", "median", "mode")
def _datadep(eng, func, args, kwargs, out, pre):
    raise UnsupportedOp(f"data-dependent operator {func} on symbolic input")


# ------------------------------------------------------------------ fused pointwise losses
def _loss_reduce(eng, out, res, reduction):
    if reduction == 0:
        eng.set_terms(out, res)
    else:
        flat = list(res.reshape(-1))
        tot = tm.addn(flat)
        if reduction == 1:
            tot = tm.mul(tm.const(Fraction(1, max(len(flat), 1))), tot)
        r = np.empty((), dtype=object)
        r[()] = tot
        eng.set_terms(out, r)


@handler("huber_loss")
def _huber(eng, func, args, kwargs, out, pre):
    reduction = args[2] if len(args) > 2 else kwargs.get("reduction", 1)
    delta = tm.lift(args[3] if len(args) > 3 else kwargs.get("delta", 1.0))
    half = tm.const(Fraction(1, 2))

    def f(x, y):
        d = tm.sub(x, y)
        a = tm.abs_(d)
        return tm.ite(tm.le(a, delta), tm.mul(half, tm.mul(d, d)), tm.mul(delta, tm.sub(a, tm.mul(half, delta))))

    a, b = obj(pre.a(0)), obj(pre.a(1))
    _loss_reduce(eng, out, vec(f, 2)(a, b), reduction)


@handler("smooth_l1_loss")
def _smooth_l1(eng, func, args, kwargs, out, pre):
    reduction = args[2] if len(args) > 2 else kwargs.get("reduction", 1)
    beta = tm.lift(args[3] if len(args) > 3 else kwargs.get("beta", 1.0))
    half = tm.const(Fraction(1, 2))

    def f(x, y):
        d = tm.sub(x, y)
        a = tm.abs_(d)
        if tm.isc(beta) and tm.cval(beta) == 0:
            return a
        return tm.ite(tm.lt(a, beta), tm.div(tm.mul(half, tm.mul(d, d)), beta), tm.sub(a, tm.mul(half, beta)))

    a, b = obj(pre.a(0)), obj(pre.a(1))
    _loss_reduce(eng, out, vec(f, 2)(a, b), reduction)


@handler("mse_loss")
def _mse(eng, func, args, kwargs, out, pre):
    reduction = args[2] if len(args) > 2 else kwargs.get("reduction", 1)
    a, b = obj(pre.a(0)), obj(pre.a(1))
    _loss_reduce(eng, out, vec(lambda x, y: tm.mul(tm.sub(x, y), tm.sub(x, y)), 2)(a, b), reduction)


@handler("l1_loss")
def _l1(eng, func, args, kwargs, out, pre):
    reduction = args[2] if len(args) > 2 else kwargs.get("reduction", 1)
    a, b = obj(pre.a(0)), obj(pre.a(1))
    _loss_reduce(eng, out, vec(lambda x, y: tm.abs_(tm.sub(x, y)), 2)(a, b), reduction)


@handler("_softmax")
def _softmax(eng, func, args, kwargs, out, pre):
    a = obj(pre.a(0))
    dim = args[1]
    am = np.moveaxis(a, dim, -1)
    res = np.empty(am.shape, dtype=object)
    for pos in np.ndindex(*am.shape[:-1]):
        es = [tm.fn("exp", x) for x in am[pos]]
        tot = tm.addn(es)
        for j, e in enumerate(es):
            res[pos + (j,)] = tm.div(e, tot)
    eng.set_terms(out, np.moveaxis(res, -1, dim))


@handler("log_sigmoid_forward")
def _logsigmoid(eng, func, args, kwargs, out, pre):
    a = obj(pre.a(0))
    eng.set_terms(out[0], vec(lambda x: tm.fn("log", tm.fn("sigmoid", x)), 1)(a))


# ------------------------------------------------------------------ max pooling (value = max over the window; indices data-dependent)
@handler("max_pool2d_with_indices", "max_pool3d_with_indices")
def _max_pool(eng, func, args, kwargs, out, pre):
    x = obj(pre.args[0])
    nd = 2 if "2d" in base_name(func) else 3
    ks = list(args[1])
    stride = list(args[2]) if len(args) > 2 and args[2] else ks
    padding = list(args[3]) if len(args) > 3 else [0] * nd
    dilation = list(args[4]) if len(args) > 4 else [1] * nd
    ks, stride, padding, dilation = [(v * nd if len(v) == 1 else v) for v in (ks, stride, padding, dilation)]
    vals, idx = out
    lead = x.shape[:-nd]
    sp = x.shape[-nd:]
    res = np.empty(tuple(vals.shape), dtype=object)
    with eng.suspended():
        ii = idx.detach().cpu().numpy()
    for pos in np.ndindex(*lead):
        for opos in np.ndindex(*vals.shape[-nd:]):
            window = []
            for kpos in np.ndindex(*ks):
                ipos = tuple(opos[d] * stride[d] - padding[d] + kpos[d] * dilation[d] for d in range(nd))
                if all(0 <= ipos[d] < sp[d] for d in range(nd)):
                    window.append(ipos)
            flat = int(ii[pos + opos])
            chosen = tuple(int(v) for v in np.unravel_index(flat, sp))
            ct = x[pos + chosen]
            for ipos in window:
                if ipos != chosen:
                    eng.branch(tm.le(x[pos + ipos], ct), True)
            res[pos + opos] = ct
    eng.set_terms(vals, res)


# ================================================================== backward kernels (C20)
# Transfer functions of torch's fused backward kernels. Each is the derivative of the corresponding forward transfer
# function; as for every other op the resulting terms are compared with the real kernel's output at the witness.
HANDLERS["new_empty_strided"] = _empty


@handler("grid_sampler_2d_backward", "grid_sampler_3d_backward")
def _grid_sampler_backward(eng, func, args, kwargs, out, pre):
    gout_t, inp, grid, mode, pad, ac = args[:6]
    mask = list(args[6]) if len(args) > 6 else [True, True]
    g_in, g_grid = out[0], out[1]
    if not eng.has(grid):
        if mask[0]:
            _probe_linear(eng, func, args, kwargs, out, pre, pos=0, affine=False)
        if mask[1] and (eng.has(inp) or eng.has(gout_t)):
            raise UnsupportedOp("grid_sampler backward w.r.t. a concrete grid that requires grad")
        return
    if mode != 0 or pad not in (0, 1):
        raise UnsupportedOp("grid_sampler backward: only (bi/tri)linear with zeros/border padding and a symbolic grid")
    go = obj(pre.args[0])
    x = obj(pre.args[1])
    g = obj(pre.args[2])
    nd = x.ndim - 2
    N, C = x.shape[:2]
    sizes = x.shape[2:]
    osz = g.shape[1:-1]
    gi_acc: Dict[tuple, list] = {}
    gg = np.empty(tuple(g.shape), dtype=object)
    for n in range(N):
        for opos in np.ndindex(*osz):
            raw = [_unnormalize(g[(n,) + opos + (nd - 1 - d,)], sizes[d], bool(ac)) for d in range(nd)]
            wraw = [eng.evalf(ci) for ci in raw]
            cidx, cell, scale = [], [], []
            for d in range(nd):
                w = wraw[d]
                hi = sizes[d] - 1
                sc = tm.const(Fraction(sizes[d] - 1, 2) if ac else Fraction(sizes[d], 2))
                if pad == 1 and w < 0:
                    cidx.append(tm.ZERO)
                    cell.append(0)
                    scale.append(tm.ZERO)
                elif pad == 1 and w > hi:
                    cidx.append(tm.const(hi))
                    cell.append(max(hi - 1, 0))
                    scale.append(tm.ZERO)
                else:
                    k = int(math.floor(w))
                    if pad == 1 and k >= hi and hi > 0:
                        k = hi - 1
                    cidx.append(raw[d])
                    cell.append(k)
                    scale.append(sc)
            dgrid = [[] for _ in range(nd)]
            for corner in itertools.product((0, 1), repeat=nd):
                idx = tuple(cell[d] + corner[d] for d in range(nd))
                if all(0 <= idx[d] < sizes[d] for d in range(nd)):
                    src = idx
                elif pad == 1:
                    src = tuple(min(max(idx[d], 0), sizes[d] - 1) for d in range(nd))
                else:
                    continue
                ws = []
                for d in range(nd):
                    frac = tm.sub(cidx[d], tm.const(cell[d]))
                    ws.append(frac if corner[d] else tm.sub(tm.ONE, frac))
                wgt = tm.ONE
                for d in range(nd):
                    wgt = tm.mul(wgt, ws[d])
                for c in range(C):
                    gi_acc.setdefault((n, c) + src, []).append(tm.mul(go[(n, c) + opos], wgt))
                for d in range(nd):
                    dw = tm.ONE if corner[d] else tm.const(-1)
                    for d2 in range(nd):
                        if d2 != d:
                            dw = tm.mul(dw, ws[d2])
                    for c in range(C):
                        dgrid[d].append(tm.mul(tm.mul(go[(n, c) + opos], x[(n, c) + src]), dw))
            for d in range(nd):
                gg[(n,) + opos + (nd - 1 - d,)] = tm.mul(scale[d], tm.addn(dgrid[d])) if dgrid[d] else tm.ZERO
    if mask[0]:
        gi = np.empty(tuple(x.shape), dtype=object)
        for pos in np.ndindex(*gi.shape):
            gi[pos] = tm.addn(gi_acc.get(pos, [])) if pos in gi_acc else tm.ZERO
        eng.set_terms(g_in, gi)
    if mask[1]:
        eng.set_terms(g_grid, gg)


@handler("convolution_backward")
def _convolution_backward(eng, func, args, kwargs, out, pre):
    gout_t, x_t, weight, bias_sizes, stride, padding, dilation, transposed, output_padding, groups, mask = args[:11]
    if eng.has(weight) or mask[1]:
        raise UnsupportedOp("convolution backward w.r.t. weights")
    if not mask[0]:
        return
    go = obj(pre.args[0])
    w = obj(pre.args[2])
    nd = go.ndim - 2
    stride = list(stride) * (nd if len(stride) == 1 else 1)
    padding = list(padding) * (nd if len(padding) == 1 else 1)
    dilation = list(dilation) * (nd if len(dilation) == 1 else 1)
    gin = out[0]
    N, Cin = gin.shape[:2]
    isz = tuple(gin.shape[2:])
    Cout = go.shape[1]
    osz = tuple(go.shape[2:])
    ks = w.shape[2:]
    acc: Dict[tuple, list] = {}
    if not transposed:
        cin_g = Cin // groups
        cout_g = Cout // groups
        for n in range(N):
            for co in range(Cout):
                gidx = co // cout_g
                for opos in np.ndindex(*osz):
                    gv = go[(n, co) + opos]
                    for ci in range(cin_g):
                        for kpos in np.ndindex(*ks):
                            ipos = tuple(opos[d] * stride[d] - padding[d] + kpos[d] * dilation[d] for d in range(nd))
                            if all(0 <= ipos[d] < isz[d] for d in range(nd)):
                                acc.setdefault((n, gidx * cin_g + ci) + ipos, []).append(tm.mul(gv, w[(co, ci) + kpos]))
    else:
        cout_g = w.shape[1]
        cin_g = Cin // groups
        for n in range(N):
            for ci in range(Cin):
                gidx = ci // cin_g
                for ipos in np.ndindex(*isz):
                    for cog in range(cout_g):
                        co = gidx * cout_g + cog
                        for kpos in np.ndindex(*ks):
                            opos = tuple(ipos[d] * stride[d] - padding[d] + kpos[d] * dilation[d] for d in range(nd))
                            if all(0 <= opos[d] < osz[d] for d in range(nd)):
                                acc.setdefault((n, ci) + ipos, []).append(tm.mul(go[(n, co) + opos], w[(ci, cog) + kpos]))
    res = np.empty(tuple(gin.shape), dtype=object)
    for pos in np.ndindex(*res.shape):
        res[pos] = tm.addn(acc[pos]) if pos in acc else tm.ZERO
    eng.set_terms(gin, res)
    if mask[2] and isinstance(out[2], torch.Tensor) and out[2].numel():
        gb = np.empty((Cout,), dtype=object)
        for co in range(Cout):
            gb[co] = tm.addn([go[(n, co) + opos] for n in range(N) for opos in np.ndindex(*osz)])
        eng.set_terms(out[2], gb)


def _loss_backward_scale(go, n, reduction):
    g = go.reshape(-1)
    if reduction == 0:
        return lambda i: g[i]
    k = tm.const(Fraction(1, max(n, 1))) if reduction == 1 else tm.ONE
    return lambda i: tm.mul(k, g[0])


@handler("huber_loss_backward")
def _huber_backward(eng, func, args, kwargs, out, pre):
    reduction, delta = args[3], tm.lift(args[4])
    go, a, b = obj(pre.a(0)), obj(pre.a(1)), obj(pre.a(2))
    a, b = np.broadcast_arrays(a, b)
    sc = _loss_backward_scale(go, a.size, reduction)
    res = np.empty(a.size, dtype=object)
    for i, (x, y) in enumerate(zip(a.reshape(-1), b.reshape(-1))):
        d = tm.sub(x, y)
        res[i] = tm.mul(sc(i), tm.ite(tm.le(tm.abs_(d), delta), d, tm.mul(delta, tm.sign_(d))))
    eng.set_terms(out, res.reshape(a.shape))


@handler("smooth_l1_loss_backward")
def _smooth_l1_backward(eng, func, args, kwargs, out, pre):
    reduction, beta = args[3], tm.lift(args[4])
    go, a, b = obj(pre.a(0)), obj(pre.a(1)), obj(pre.a(2))
    a, b = np.broadcast_arrays(a, b)
    sc = _loss_backward_scale(go, a.size, reduction)
    res = np.empty(a.size, dtype=object)
    for i, (x, y) in enumerate(zip(a.reshape(-1), b.reshape(-1))):
        d = tm.sub(x, y)
        if tm.isc(beta) and tm.cval(beta) == 0:
            r = tm.sign_(d)
        else:
            r = tm.ite(tm.lt(tm.abs_(d), beta), tm.div(d, beta), tm.sign_(d))
        res[i] = tm.mul(sc(i), r)
    eng.set_terms(out, res.reshape(a.shape))


@handler("mse_loss_backward")
def _mse_backward(eng, func, args, kwargs, out, pre):
    reduction = args[3]
    go, a, b = obj(pre.a(0)), obj(pre.a(1)), obj(pre.a(2))
    a, b = np.broadcast_arrays(a, b)
    sc = _loss_backward_scale(go, a.size, reduction)
    res = np.empty(a.size, dtype=object)
    for i, (x, y) in enumerate(zip(a.reshape(-1), b.reshape(-1))):
        res[i] = tm.mul(sc(i), tm.mul(tm.const(2), tm.sub(x, y)))
    eng.set_terms(out, res.reshape(a.shape))


@handler("_softmax_backward_data")
def _softmax_backward(eng, func, args, kwargs, out, pre):
    go, y = obj(pre.a(0)), obj(pre.a(1))
    dim = args[2]
    gm, ym = np.moveaxis(go, dim, -1), np.moveaxis(y, dim, -1)
    res = np.empty(ym.shape, dtype=object)
    for pos in np.ndindex(*ym.shape[:-1]):
        s = tm.addn([tm.mul(a, b) for a, b in zip(gm[pos], ym[pos])])
        for j in range(ym.shape[-1]):
            res[pos + (j,)] = tm.mul(ym[pos + (j,)], tm.sub(gm[pos + (j,)], s))
    eng.set_terms(out, np.moveaxis(res, -1, dim))


@handler("binary_cross_entropy_with_logits")
def _bce_logits(eng, func, args, kwargs, out, pre):
    x, t = obj(pre.a(0)), obj(pre.a(1))
    w = obj(pre.a(2)) if len(args) > 2 and args[2] is not None else None
    pw = obj(pre.a(3)) if len(args) > 3 and args[3] is not None else None
    reduction = args[4] if len(args) > 4 else kwargs.get("reduction", 1)
    x, t = np.broadcast_arrays(x, t)
    res = np.empty(x.shape, dtype=object)
    for pos in np.ndindex(*x.shape):
        xv, tv = x[pos], t[pos]
        sp = tm.fn("log", tm.add(tm.ONE, tm.fn("exp", tm.neg(xv))))  # softplus(-x) = -log(sigmoid(x))
        if pw is not None:
            p = np.broadcast_to(pw, x.shape)[pos]
            r = tm.add(tm.mul(tm.sub(tm.ONE, tv), xv), tm.mul(tm.add(tm.ONE, tm.mul(tm.sub(p, tm.ONE), tv)), sp))
        else:
            r = tm.add(tm.mul(tm.sub(tm.ONE, tv), xv), sp)
        if w is not None:
            r = tm.mul(np.broadcast_to(w, x.shape)[pos], r)
        res[pos] = r
    _loss_reduce(eng, out, res, reduction)


@handler("tanh_backward")
def _tanh_backward(eng, func, args, kwargs, out, pre):
    go, y = obj(pre.a(0)), obj(pre.a(1))
    eng.set_terms(out, vec(lambda g, v: tm.mul(g, tm.sub(tm.ONE, tm.mul(v, v))), 2)(*np.broadcast_arrays(go, y)))


@handler("sigmoid_backward")
def _sigmoid_backward(eng, func, args, kwargs, out, pre):
    go, y = obj(pre.a(0)), obj(pre.a(1))
    eng.set_terms(out, vec(lambda g, v: tm.mul(g, tm.mul(v, tm.sub(tm.ONE, v))), 2)(*np.broadcast_arrays(go, y)))


@handler("threshold_backward")
def _threshold_backward(eng, func, args, kwargs, out, pre):
    go, x = obj(pre.a(0)), obj(pre.a(1))
    th = tm.lift(args[2])
    eng.set_terms(out, vec(lambda g, v: tm.ite(tm.le(v, th), tm.ZERO, g), 2)(*np.broadcast_arrays(go, x)))


@handler("log_sigmoid_backward")
def _logsigmoid_backward(eng, func, args, kwargs, out, pre):
    go, x = obj(pre.a(0)), obj(pre.a(1))
    eng.set_terms(out, vec(lambda g, v: tm.mul(g, tm.sub(tm.ONE, tm.fn("sigmoid", v))), 2)(*np.broadcast_arrays(go, x)))
