"""Term language of the concolic engine: a hash-consed DAG of real/int/bool terms.

One DAG, several consumers: float / exact-rational evaluation at a witness, translation
to z3 (Real/Int/Bool; division-free via `ratfun`), symbolic differentiation, substitution.
"""
from __future__ import annotations

import math
from fractions import Fraction
from typing import Dict, Iterable, List, Optional, Tuple

R, B = "R", "B"  # sorts: numeric (real / int-valued real), boolean


class T:
    """Hash-consed term node. `op` is a short string, `args` a tuple of T or python payloads."""

    __slots__ = ("op", "args", "_h", "sort", "__weakref__")
    _intern: Dict[tuple, "T"] = {}

    def __new__(cls, op, args, sort):
        key = (op, args)
        t = T._intern.get(key)
        if t is None:
            t = object.__new__(cls)
            t.op = op
            t.args = args
            t.sort = sort
            t._h = hash(key)
            T._intern[key] = t
        return t

    def __hash__(self):
        return self._h

    def __eq__(self, o):
        return self is o

    def __ne__(self, o):
        return self is not o

    # python operators (numeric sort)
    def __add__(a, b):
        return add(a, lift(b))

    def __radd__(a, b):
        return add(lift(b), a)

    def __sub__(a, b):
        return add(a, neg(lift(b)))

    def __rsub__(a, b):
        return add(lift(b), neg(a))

    def __mul__(a, b):
        return mul(a, lift(b))

    def __rmul__(a, b):
        return mul(lift(b), a)

    def __truediv__(a, b):
        return div(a, lift(b))

    def __rtruediv__(a, b):
        return div(lift(b), a)

    def __neg__(a):
        return neg(a)

    def __pow__(a, k):
        return powi(a, k)

    def __repr__(self):
        return show(self, 400)


def reset_terms():
    T._intern.clear()
    _Z3.clear()
    _EVF.clear()
    _INTV.clear()


# ------------------------------------------------------------------ constants / snapping
def simplest_between(lo: Fraction, hi: Fraction) -> Fraction:
    """Simplest fraction in the closed interval [lo, hi] (Stern-Brocot)."""
    if lo > hi:
        lo, hi = hi, lo
    if lo <= 0 <= hi:
        return Fraction(0)
    if hi < 0:
        return -simplest_between(-hi, -lo)
    # iterative continued fraction
    cf = []
    while True:
        fl = lo.numerator // lo.denominator
        if Fraction(fl) == lo:
            cf.append(fl)
            break
        if fl + 1 <= hi:
            cf.append(fl + 1)
            break
        cf.append(fl)
        lo, hi = 1 / (hi - fl), 1 / (lo - fl)
    r = Fraction(cf[-1])
    for a in reversed(cf[:-1]):
        r = a + 1 / r
    return r


def snap(x: float, rel: float = 2.0**-50, abs_: float = 1e-300) -> Fraction:
    if isinstance(x, int):
        return Fraction(x)
    if x != x or x in (math.inf, -math.inf):
        raise ValueError(f"cannot lift non-finite constant {x}")
    f = Fraction(x)
    tol = max(abs(f) * Fraction(rel), Fraction(abs_))
    return simplest_between(f - tol, f + tol)


def snap32(x: float) -> Fraction:
    """Simplest rational within float32 resolution (used for concrete float tensor elements)."""
    return snap(x, 2.0**-22, 2.0**-22)


def const(x) -> T:
    if isinstance(x, T):
        return x
    if isinstance(x, bool):
        return TRUE if x else FALSE
    if isinstance(x, float):
        x = snap(x)
    return T("c", (Fraction(x),), R)


def lift(x) -> T:
    return x if isinstance(x, T) else const(x)


def var(name: str, kind: str = "real") -> T:
    """kind: 'real' | 'int' | 'bool'."""
    return T("v", (name, kind), B if kind == "bool" else R)


TRUE = T("true", (), B)
FALSE = T("false", (), B)
ZERO = T("c", (Fraction(0),), R)
ONE = T("c", (Fraction(1),), R)


def isc(t: T) -> bool:
    return t.op == "c"


def cval(t: T) -> Fraction:
    return t.args[0]


def num(t) -> T:
    """Coerce to numeric sort."""
    t = lift(t)
    if t.sort == B:
        return ite(t, ONE, ZERO)
    return t


def boo(t) -> T:
    t = lift(t)
    if t.sort == B:
        return t
    return ne(t, ZERO)


# ------------------------------------------------------------------ constructors with light folding
RAW = [False]  # floating-point faithful construction: no re-association, no c1*(c2*y) merging, no x/c -> (1/c)*x


def set_raw(flag: bool):
    RAW[0] = bool(flag)


def add(a, b) -> T:
    a, b = num(a), num(b)
    if isc(a) and isc(b):
        return const(cval(a) + cval(b))
    if isc(a) and cval(a) == 0:
        return b
    if isc(b) and cval(b) == 0:
        return a
    if isc(a):  # constants to the right
        a, b = b, a
    if isc(b) and a.op == "+" and isc(a.args[1]) and not RAW[0]:  # (x + c1) + c2 -> x + (c1 + c2)
        return add(a.args[0], const(cval(a.args[1]) + cval(b)))
    return T("+", (a, b), R)


def addn(xs: Iterable) -> T:
    """n-ary sum (flat node, avoids deep chains)."""
    if RAW[0]:
        r = None
        for x in xs:
            r = num(x) if r is None else add(r, x)
        return ZERO if r is None else r
    c = Fraction(0)
    ts: List[T] = []
    for x in xs:
        x = num(x)
        if isc(x):
            c += cval(x)
        elif x.op == "sum":
            ts.extend(x.args)
        else:
            ts.append(x)
    if c != 0:
        ts.append(const(c))
    if not ts:
        return ZERO
    if len(ts) == 1:
        return ts[0]
    if len(ts) == 2:
        return add(ts[0], ts[1])
    return T("sum", tuple(ts), R)


def neg(a) -> T:
    a = num(a)
    if isc(a):
        return const(-cval(a))
    if a.op == "neg":
        return a.args[0]
    if a.op == "*" and isc(a.args[0]):
        return T("*", (const(-cval(a.args[0])), a.args[1]), R)
    return T("neg", (a,), R)


def sub(a, b) -> T:
    return add(a, neg(b))


def mul(a, b) -> T:
    a, b = num(a), num(b)
    if isc(a) and isc(b):
        return const(cval(a) * cval(b))
    for x, y in ((a, b), (b, a)):
        if isc(x):
            if cval(x) == 0:
                return ZERO
            if cval(x) == 1:
                return y
            if cval(x) == -1:
                return neg(y)
            if isc(y):
                return const(cval(x) * cval(y))
            if y.op == "*" and isc(y.args[0]) and not RAW[0]:
                return mul(const(cval(x) * cval(y.args[0])), y.args[1])
            if y.op == "neg":
                return mul(const(-cval(x)), y.args[0])
            return T("*", (x, y), R)  # constant first
    for x, y in ((a, b), (b, a)):
        # indicator(c) * y  ->  ite(c, y, 0)   (keeps products of 0/1 indicators Boolean for the solver)
        if x.op == "ite" and x.args[1] is ONE and x.args[2] is ZERO:
            if y.op == "ite" and y.args[1] is ONE and y.args[2] is ZERO:
                return ite(and_(x.args[0], y.args[0]), ONE, ZERO)
            return ite(x.args[0], y, ZERO)
    return T("*", (a, b), R)


def div(a, b) -> T:
    a, b = num(a), num(b)
    if isc(b) and cval(b) != 0 and not (RAW[0] and (cval(b).numerator & (cval(b).numerator - 1) or cval(b).denominator & (cval(b).denominator - 1))):
        return mul(const(1 / cval(b)), a)  # (in raw mode only for powers of two, where it is exact)
    if isc(a) and cval(a) == 0 and not isc(b):
        # 0 / b : keep the division so that b != 0 remains an obligation
        return T("/", (a, b), R)
    return T("/", (a, b), R)


def powi(a, k: int) -> T:
    a = num(a)
    if isinstance(k, T):
        assert isc(k)
        k = cval(k)
    if isinstance(k, float) and k == int(k):
        k = int(k)
    if isinstance(k, Fraction) and k.denominator == 1:
        k = int(k)
    if isinstance(k, (float, Fraction)) and Fraction(k) == Fraction(1, 2):
        return sqrt_(a)
    if isinstance(k, (float, Fraction)) and Fraction(k) == Fraction(-1, 2):
        return div(ONE, sqrt_(a))
    if not isinstance(k, int):
        raise NotImplementedError(f"pow with exponent {k}")
    if k < 0:
        return div(ONE, powi(a, -k))
    r = ONE
    base = a
    while k:
        if k & 1:
            r = mul(r, base)
        k >>= 1
        if k:
            base = mul(base, base)
    return r


def ite(c, a, b) -> T:
    c = boo(c)
    a, b = lift(a), lift(b)
    if c is TRUE:
        return a
    if c is FALSE:
        return b
    if a is b:
        return a
    if a.sort != b.sort:
        a, b = num(a), num(b)
    return T("ite", (c, a, b), a.sort)


def _cmp(op, a, b) -> T:
    a, b = num(a), num(b)
    if isc(a) and isc(b):
        x, y = cval(a), cval(b)
        return const({"<": x < y, "<=": x <= y, "==": x == y}[op])
    if a is b:
        return TRUE if op in ("<=", "==") else FALSE
    return T(op, (a, b), B)


def lt(a, b):
    return _cmp("<", a, b)


def le(a, b):
    return _cmp("<=", a, b)


def gt(a, b):
    return _cmp("<", b, a)


def ge(a, b):
    return _cmp("<=", b, a)


def eq(a, b):
    a, b = lift(a), lift(b)
    if a.sort == B and b.sort == B:
        if a is b:
            return TRUE
        if a is TRUE:
            return b
        if b is TRUE:
            return a
        if a is FALSE:
            return not_(b)
        if b is FALSE:
            return not_(a)
        return T("iff", (a, b), B)
    return _cmp("==", a, b)


def ne(a, b):
    return not_(eq(a, b))


def not_(a) -> T:
    a = boo(a)
    if a is TRUE:
        return FALSE
    if a is FALSE:
        return TRUE
    if a.op == "not":
        return a.args[0]
    return T("not", (a,), B)


def and_(*xs) -> T:
    out = []
    for x in xs:
        x = boo(x)
        if x is FALSE:
            return FALSE
        if x is TRUE:
            continue
        if x.op == "and":
            out.extend(x.args)
        else:
            out.append(x)
    out = list(dict.fromkeys(out))
    if not out:
        return TRUE
    if len(out) == 1:
        return out[0]
    return T("and", tuple(out), B)


def or_(*xs) -> T:
    out = []
    for x in xs:
        x = boo(x)
        if x is TRUE:
            return TRUE
        if x is FALSE:
            continue
        if x.op == "or":
            out.extend(x.args)
        else:
            out.append(x)
    out = list(dict.fromkeys(out))
    if not out:
        return FALSE
    if len(out) == 1:
        return out[0]
    return T("or", tuple(out), B)


def abs_(a) -> T:
    a = num(a)
    if isc(a):
        return const(abs(cval(a)))
    return ite(lt(a, ZERO), neg(a), a)


def min_(a, b) -> T:
    a, b = num(a), num(b)
    return ite(lt(b, a), b, a)


def max_(a, b) -> T:
    a, b = num(a), num(b)
    return ite(lt(a, b), b, a)


def sign_(a) -> T:
    a = num(a)
    return ite(lt(ZERO, a), ONE, ite(lt(a, ZERO), const(-1), ZERO))


_INTV: Dict[T, bool] = {}


def is_intvalued(t: T) -> bool:
    """Conservative syntactic test: the term denotes an integer for every assignment."""
    r = _INTV.get(t)
    if r is not None:
        return r
    op = t.op
    if op == "c":
        r = cval(t).denominator == 1
    elif op == "v":
        r = t.args[1] == "int"
    elif op in ("+", "*", "sum"):
        r = all(is_intvalued(a) for a in t.args)
    elif op == "neg":
        r = is_intvalued(t.args[0])
    elif op == "floor":
        r = True
    elif op == "ite":
        r = is_intvalued(t.args[1]) and is_intvalued(t.args[2])
    else:
        r = False
    _INTV[t] = r
    return r


def floor_(a) -> T:
    a = num(a)
    if isc(a):
        return const(math.floor(cval(a)))
    if is_intvalued(a):
        return a
    return T("floor", (a,), R)


def ceil_(a) -> T:
    a = num(a)
    if is_intvalued(a):
        return a
    return neg(floor_(neg(a)))


def trunc_(a) -> T:
    a = num(a)
    if is_intvalued(a):
        return a
    return ite(lt(a, ZERO), ceil_(a), floor_(a))


def round_(a) -> T:
    """Round half to even (torch.round / ATen nearbyint)."""
    a = num(a)
    if is_intvalued(a):
        return a
    if isc(a):
        return const(round(cval(a)))
    f = floor_(a)
    d = sub(a, f)
    half = const(Fraction(1, 2))
    # even(f) <=> floor(f/2)*2 == f
    even = eq(mul(const(2), T("floor", (mul(half, f),), R)), f)
    return ite(lt(d, half), f, ite(lt(half, d), add(f, ONE), ite(even, f, add(f, ONE))))


FN_ARITY = {
    "sqrt": 1, "exp": 1, "log": 1, "sin": 1, "cos": 1, "tan": 1, "tanh": 1, "atanh": 1,
    "atan2": 2, "acos": 1, "asin": 1, "atan": 1, "sigmoid": 1, "erf": 1, "log1p": 1, "expm1": 1,
    "pow": 2, "cosh": 1, "sinh": 1,
}


def fn(name: str, *args) -> T:
    args = tuple(num(a) for a in args)
    if name == "sigmoid":  # by definition, so that identities between sigmoid, exp and log are polynomial
        return div(ONE, add(ONE, fn("exp", neg(args[0]))))
    if name == "exp" and args[0].op == "fn" and args[0].args[0] == "log":
        return args[0].args[1]
    if name == "exp" and args[0].op == "neg" and args[0].args[0].op == "fn" and args[0].args[0].args[0] == "log":
        return div(ONE, args[0].args[0].args[1])
    if name == "log" and args[0].op == "fn" and args[0].args[0] == "exp":
        return args[0].args[1]
    if name == "tanh" and args[0].op == "fn" and args[0].args[0] == "atanh":
        return args[0].args[1]  # on atanh's domain |x| < 1
    if name == "atanh" and args[0].op == "fn" and args[0].args[0] == "tanh":
        return args[0].args[1]
    if all(isc(a) for a in args):
        v = _fn_float(name, [float(cval(a)) for a in args])
        # fold only when exactly representable in an obvious way
        if name in ("sin", "tan", "tanh", "atanh", "asin", "atan", "sinh", "expm1", "log1p", "erf") and args[0] is ZERO:
            return ZERO
        if name in ("cos", "exp", "cosh") and args[0] is ZERO:
            return ONE
        if name == "log" and args[0] is ONE:
            return ZERO
        if name == "sqrt":
            c = cval(args[0])
            if c >= 0:
                n, d = math.isqrt(c.numerator), math.isqrt(c.denominator)
                if n * n == c.numerator and d * d == c.denominator:
                    return const(Fraction(n, d))
        del v
    return T("fn", (name,) + args, R)


def sqrt_(a) -> T:
    return fn("sqrt", a)


def _fn_float(name, xs):
    if name == "sigmoid":
        return 1.0 / (1.0 + math.exp(-xs[0]))
    if name == "pow":
        return math.pow(xs[0], xs[1])
    return getattr(math, name)(*xs)


# ------------------------------------------------------------------ traversal helpers
def kids(t: T) -> Tuple[T, ...]:
    if t.op in ("c", "v", "true", "false"):
        return ()
    if t.op == "fn":
        return t.args[1:]
    return t.args


def postorder(roots: Iterable[T]) -> List[T]:
    seen = set()
    out: List[T] = []
    for r in roots:
        if r in seen:
            continue
        stack = [(r, False)]
        while stack:
            n, done = stack.pop()
            if done:
                out.append(n)
                continue
            if n in seen:
                continue
            seen.add(n)
            stack.append((n, True))
            for k in kids(n):
                if k not in seen:
                    stack.append((k, False))
    return out


def free_vars(roots: Iterable[T]) -> Dict[str, str]:
    return {n.args[0]: n.args[1] for n in postorder(roots) if n.op == "v"}


def size(roots: Iterable[T]) -> int:
    return len(postorder(roots))


def show(t: T, limit: int = 200) -> str:
    def rec(n, depth):
        if n.op == "c":
            return str(cval(n))
        if n.op == "v":
            return n.args[0]
        if n.op in ("true", "false"):
            return n.op
        if depth > 12:
            return "..."
        ks = [rec(k, depth + 1) for k in kids(n)]
        if n.op == "fn":
            return f"{n.args[0]}({', '.join(ks)})"
        if n.op in ("+", "*", "/", "<", "<=", "=="):
            return f"({ks[0]} {n.op} {ks[1]})"
        if n.op == "sum":
            return "(" + " + ".join(ks) + ")"
        if n.op == "neg":
            return f"-{ks[0]}"
        return f"{n.op}({', '.join(ks)})"

    s = rec(t, 0)
    return s if len(s) <= limit else s[: limit - 3] + "..."


# ------------------------------------------------------------------ evaluation
_EVF: Dict[T, object] = {}


class Inexact(Exception):
    pass


def evalf(t: T, env: Dict[str, float], memo: Optional[dict] = None):
    """Float (double) evaluation; `memo` may be shared across calls for one env."""
    memo = _EVF if memo is None else memo
    r = memo.get(t)
    if r is not None or t in memo:
        return r
    for n in postorder([t]):
        if n in memo:
            continue
        op = n.op
        if op == "c":
            v = float(cval(n))
        elif op == "v":
            v = env[n.args[0]]
            v = bool(v) if n.args[1] == "bool" else float(v)
        elif op == "true":
            v = True
        elif op == "false":
            v = False
        else:
            a = [memo[k] for k in kids(n)]
            try:
                v = _apply(op, n, a, float)
            except (ZeroDivisionError, ValueError, OverflowError):
                v = math.nan
        memo[n] = v
    return memo[t]


def evalq(t: T, env: Dict[str, Fraction], memo: Optional[dict] = None):
    """Exact rational evaluation. Raises Inexact at transcendental nodes with non-trivial value."""
    memo = {} if memo is None else memo
    for n in postorder([t]):
        if n in memo:
            continue
        op = n.op
        if op == "c":
            v = cval(n)
        elif op == "v":
            v = env[n.args[0]]
            v = bool(v) if n.args[1] == "bool" else Fraction(v)
        elif op == "true":
            v = True
        elif op == "false":
            v = False
        else:
            a = [memo[k] for k in kids(n)]
            v = _apply(op, n, a, Fraction)
        memo[n] = v
    return memo[t]


def _apply(op, n, a, ty):
    if op == "+":
        return a[0] + a[1]
    if op == "sum":
        return sum(a[1:], a[0])
    if op == "*":
        return a[0] * a[1]
    if op == "/":
        return a[0] / a[1]
    if op == "neg":
        return -a[0]
    if op == "ite":
        return a[1] if a[0] else a[2]
    if op == "<":
        return a[0] < a[1]
    if op == "<=":
        return a[0] <= a[1]
    if op == "==":
        return a[0] == a[1]
    if op == "iff":
        return bool(a[0]) == bool(a[1])
    if op == "not":
        return not a[0]
    if op == "and":
        return all(a)
    if op == "or":
        return any(a)
    if op == "floor":
        return ty(math.floor(a[0]))
    if op == "fn":
        name = n.args[0]
        if ty is Fraction:
            if name == "sqrt":
                c = a[0]
                if c >= 0:
                    p, q = math.isqrt(c.numerator), math.isqrt(c.denominator)
                    if p * p == c.numerator and q * q == c.denominator:
                        return Fraction(p, q)
            raise Inexact(name)
        return _fn_float(name, a)
    raise NotImplementedError(op)


# ------------------------------------------------------------------ substitution / differentiation
def substitute(roots: List[T], mapping: Dict[T, T]) -> List[T]:
    memo: Dict[T, T] = dict(mapping)
    for n in postorder(roots):
        if n in memo:
            continue
        ks = kids(n)
        if not ks:
            memo[n] = n
            continue
        new = [memo[k] for k in ks]
        if all(x is y for x, y in zip(new, ks)):
            memo[n] = n
        else:
            memo[n] = rebuild(n, new)
    return [memo[r] for r in roots]


def rebuild(n: T, a: List[T]) -> T:
    op = n.op
    if op == "+":
        return add(a[0], a[1])
    if op == "sum":
        return addn(a)
    if op == "*":
        return mul(a[0], a[1])
    if op == "/":
        return div(a[0], a[1])
    if op == "neg":
        return neg(a[0])
    if op == "ite":
        return ite(a[0], a[1], a[2])
    if op == "<":
        return lt(a[0], a[1])
    if op == "<=":
        return le(a[0], a[1])
    if op == "==":
        return eq(a[0], a[1])
    if op == "iff":
        return eq(a[0], a[1])
    if op == "not":
        return not_(a[0])
    if op == "and":
        return and_(*a)
    if op == "or":
        return or_(*a)
    if op == "floor":
        return floor_(a[0])
    if op == "fn":
        return fn(n.args[0], *a)
    raise NotImplementedError(op)


POISON_PREFIX = "poison!"


def diff(roots: List[T], wrt: List[T]) -> List[List[T]]:
    """Symbolic derivative d root_i / d wrt_j. Non-differentiable nodes (floor, hence round/trunc/ceil)
    differentiate to a fresh *poison* variable when their argument depends on the variable, so that a
    rounding on a differentiable path makes `autograd == derivative` falsifiable. `ite` differentiates
    branch-wise (generic inputs: guards not at equality)."""
    order = postorder(roots)
    out = []
    for w in wrt:
        d: Dict[T, T] = {}
        dep: Dict[T, bool] = {}
        for n in order:
            op = n.op
            ks = kids(n)
            if n is w:
                d[n] = ONE
                dep[n] = True
                continue
            if not ks:
                d[n] = ZERO
                dep[n] = False
                continue
            dp = any(dep[k] for k in ks)
            dep[n] = dp
            if not dp or n.sort == B:
                d[n] = ZERO
                continue
            a = ks
            if op == "+":
                r = add(d[a[0]], d[a[1]])
            elif op == "sum":
                r = addn([d[k] for k in a])
            elif op == "*":
                r = add(mul(d[a[0]], a[1]), mul(a[0], d[a[1]]))
            elif op == "/":
                # a0'/a1 - (a0/a1) * a1'/a1: only the node's own divisor appears as a denominator (no a1*a1 node)
                r = sub(div(d[a[0]], a[1]), div(mul(n, d[a[1]]), a[1]))
            elif op == "neg":
                r = neg(d[a[0]])
            elif op == "ite":
                r = ite(a[0], d[a[1]], d[a[2]])
            elif op == "floor":
                r = var(f"{POISON_PREFIX}{n._h & 0xFFFFFFFF:x}")
            elif op == "fn":
                name = n.args[0]
                x = a[0]
                if name == "sqrt":
                    g = div(ONE, mul(const(2), n))
                elif name == "exp":
                    g = n
                elif name == "log":
                    g = div(ONE, x)
                elif name == "sin":
                    g = fn("cos", x)
                elif name == "cos":
                    g = neg(fn("sin", x))
                elif name == "tan":
                    g = add(ONE, mul(n, n))
                elif name == "tanh":
                    g = sub(ONE, mul(n, n))
                elif name == "atanh":
                    g = div(ONE, sub(ONE, mul(x, x)))
                elif name == "sigmoid":
                    g = mul(n, sub(ONE, n))
                elif name == "atan":
                    g = div(ONE, add(ONE, mul(x, x)))
                elif name == "asin":
                    g = div(ONE, sqrt_(sub(ONE, mul(x, x))))
                elif name == "acos":
                    g = neg(div(ONE, sqrt_(sub(ONE, mul(x, x)))))
                elif name == "atan2":
                    y_, x_ = a
                    den = add(mul(x_, x_), mul(y_, y_))
                    r = div(sub(mul(x_, d[y_]), mul(y_, d[x_])), den)
                    d[n] = r
                    continue
                else:
                    raise NotImplementedError(f"derivative of {name}")
                r = mul(g, d[x])
            else:
                raise NotImplementedError(op)
            d[n] = r
        out.append([d[r] for r in roots])
    # transpose -> [root][wrt]
    return [[out[j][i] for j in range(len(wrt))] for i in range(len(roots))]


# ------------------------------------------------------------------ division-free normal form
class Den:
    """Denominator as a multiset of atomic factors {term: power}; keeps degrees minimal (lcm)."""

    __slots__ = ("f",)

    def __init__(self, f=None):
        self.f = f or {}

    def key(self):
        return tuple(sorted(((k._h, v) for k, v in self.f.items())))

    def term(self) -> T:
        r = ONE
        for k, v in self.f.items():
            r = mul(r, powi(k, v))
        return r

    def is_one(self):
        return not self.f


def _factors(t: T, out: Dict[T, int], sign=1):
    """Split a product term into atomic factors; constants are returned as a Fraction."""
    c = Fraction(1)
    stack = [t]
    while stack:
        n = stack.pop()
        if n.op == "*":
            stack.extend(n.args)
        elif n.op == "c":
            c *= cval(n)
        elif n.op == "neg":
            c = -c
            stack.append(n.args[0])
        else:
            out[n] = out.get(n, 0) + 1
    return c


def _lcm(a: Den, b: Den) -> Den:
    f = dict(a.f)
    for k, v in b.f.items():
        if f.get(k, 0) < v:
            f[k] = v
    return Den(f)


def _missing(num_: T, have: Den, want: Den) -> T:
    for k, v in want.f.items():
        m = v - have.f.get(k, 0)
        if m > 0:
            num_ = mul(num_, powi(k, m))
    return num_


def ratfun(roots: List[T], memo: Optional[dict] = None) -> List[Tuple[T, T]]:
    """(num, den) with root == num/den and no '/' node on the arithmetic spine of num/den.
    Denominators are kept as factor multisets so that sums use the least common multiple.
    `ite` is split into (ite(c, n1', n2'), lcm den); boolean sub-terms, floor and fn atoms are rewritten
    recursively with division kept inside them (sign of the denominators unknown)."""
    memo = {} if memo is None else memo
    D1 = Den()
    for n in postorder(roots):
        if n in memo:
            continue
        op = n.op
        if op in ("c", "v", "true", "false"):
            memo[n] = (n, D1)
            continue
        ks = kids(n)
        if n.sort == B:
            if op in ("<", "<=", "=="):
                (a, b), (c, d) = memo[ks[0]], memo[ks[1]]
                if b.is_one() and d.is_one():
                    memo[n] = (rebuild(n, [a, c]), D1)
                elif op == "==":
                    memo[n] = (eq(_missing(a, b, _lcm(b, d)), _missing(c, d, _lcm(b, d))), D1)
                else:
                    memo[n] = (rebuild(n, [_undiv(a, b.term()), _undiv(c, d.term())]), D1)
            else:
                memo[n] = (rebuild(n, [memo[k][0] for k in ks]), D1)
            continue
        if op == "+" or op == "sum":
            parts = [memo[k] for k in ks]
            den = parts[0][1]
            for p in parts[1:]:
                if p[1] is not den:
                    den = _lcm(den, p[1])
            memo[n] = (addn([_missing(a, b, den) for (a, b) in parts]), den)
        elif op == "*":
            (a, b), (c, d) = memo[ks[0]], memo[ks[1]]
            if b.is_one() and d.is_one():
                memo[n] = (mul(a, c), D1)
            else:
                f = dict(b.f)
                for k, v in d.f.items():
                    f[k] = f.get(k, 0) + v
                memo[n] = (mul(a, c), Den(f))
        elif op == "/":
            (a, b), (c, d) = memo[ks[0]], memo[ks[1]]
            # (a/b) / (c/d) = (a * d) / (b * c)
            f = dict(b.f)
            cc = _factors(c, f)
            numr = _missing(a, Den(), d)
            if cc != 1:
                numr = mul(const(1 / cc), numr)
            memo[n] = (numr, Den(f))
        elif op == "neg":
            a, b = memo[ks[0]]
            memo[n] = (neg(a), b)
        elif op == "ite":
            c = memo[ks[0]][0]
            (a, b), (p, q) = memo[ks[1]], memo[ks[2]]
            den = b if b is q else _lcm(b, q)
            memo[n] = (ite(c, _missing(a, b, den), _missing(p, q, den)), den)
        elif op == "floor":
            a, b = memo[ks[0]]
            memo[n] = (floor_(_undiv(a, b.term())), D1)
        elif op == "fn":
            memo[n] = (fn(n.args[0], *[_undiv(memo[k][0], memo[k][1].term()) for k in ks]), D1)
        else:
            raise NotImplementedError(op)
    return [(memo[r][0], memo[r][1].term()) for r in roots]


def ratfun_cross(l: T, r: T) -> T:
    """Division-free term D with (l == r) <=> (D == 0) wherever all denominators are non-zero."""
    memo: dict = {}
    ratfun([l, r], memo)
    (nl, dl), (nr, dr) = memo[l], memo[r]
    den = dl if dl is dr else _lcm(dl, dr)
    return sub(_missing(nl, dl, den), _missing(nr, dr, den))


def _undiv(a: T, b: T) -> T:
    return a if b is ONE else div(a, b)


def denominators(roots: List[T]) -> List[T]:
    """All distinct divisor sub-terms (for `den != 0` side obligations)."""
    return list(dict.fromkeys(n.args[1] for n in postorder(roots) if n.op == "/"))


# ------------------------------------------------------------------ trigonometric atoms -> rational parametrisation
TRIG_PREFIX = "trig!"


def rationalize_trig(roots: List[T]):
    """Replace sin(x), cos(x), tan(x) by 2t/(1+t^2), (1-t^2)/(1+t^2), 2t/(1-t^2) with a fresh real t = tan(x/2)
    per distinct argument x. Covers every angle except x = pi (mod 2 pi). Returns (new_roots, {t_name: x})."""
    args: Dict[T, T] = {}
    for n in postorder(roots):
        if n.op == "fn" and n.args[0] in ("sin", "cos", "tan"):
            args.setdefault(n.args[1], None)
    if not args:
        return roots, {}
    mapping: Dict[T, T] = {}
    back: Dict[str, T] = {}
    for k, x in enumerate(args):
        name = f"{TRIG_PREFIX}{x.args[0] if x.op == 'v' else format(x._h & 0xFFFFFFFF, 'x')}"
        t = var(name)
        back[name] = x
        d = add(ONE, mul(t, t))
        mapping[fn("sin", x)] = div(mul(const(2), t), d)
        mapping[fn("cos", x)] = div(sub(ONE, mul(t, t)), d)
        mapping[fn("tan", x)] = div(mul(const(2), t), sub(ONE, mul(t, t)))
    return substitute(roots, mapping), back


# ------------------------------------------------------------------ z3 translation
_Z3: Dict[T, object] = {}


class Z3Ctx:
    """Collects side constraints generated while translating (sqrt definitions, axioms)."""

    def __init__(self):
        self.side: List[object] = []
        self.axioms_used: Dict[str, int] = {}
        self._fn_seen = set()

    def note(self, name):
        self.axioms_used[name] = self.axioms_used.get(name, 0) + 1


ABSTRACT_FLOOR = [False]  # floor(e) as a fresh real f with e-1 < f <= e (sound over-approximation for unsat)


def set_abstract_floor(flag: bool):
    if ABSTRACT_FLOOR[0] != flag:
        ABSTRACT_FLOOR[0] = flag
        _Z3.clear()


RELAX_INTS = [True]  # int variables as reals (sound for universal claims; sat models are re-checked with Ints)


def set_relax_ints(flag: bool):
    if RELAX_INTS[0] != flag:
        RELAX_INTS[0] = flag
        _Z3.clear()


def to_z3(t: T, ctx: Z3Ctx):
    import z3

    r = _Z3.get(t)
    if r is not None:
        _replay_side(t, ctx)
        return r
    for n in postorder([t]):
        if n in _Z3:
            continue
        op = n.op
        a = [_Z3[k] for k in kids(n)]
        if op == "c":
            f = cval(n)
            z = z3.RealVal(f"{f.numerator}/{f.denominator}") if f.denominator != 1 else z3.RealVal(f.numerator)
        elif op == "v":
            name, kind = n.args
            z = z3.Bool(name) if kind == "bool" else (z3.ToReal(z3.Int(name)) if (kind == "int" and not RELAX_INTS[0]) else z3.Real(name))
        elif op == "true":
            z = z3.BoolVal(True)
        elif op == "false":
            z = z3.BoolVal(False)
        elif op == "+":
            z = a[0] + a[1]
        elif op == "sum":
            z = z3.Sum(a)
        elif op == "*":
            z = a[0] * a[1]
        elif op == "/":
            z = a[0] / a[1]
        elif op == "neg":
            z = -a[0]
        elif op == "ite":
            z = z3.If(a[0], a[1], a[2])
        elif op == "<":
            z = a[0] < a[1]
        elif op == "<=":
            z = a[0] <= a[1]
        elif op in ("==", "iff"):
            z = a[0] == a[1]
        elif op == "not":
            z = z3.Not(a[0])
        elif op == "and":
            z = z3.And(a)
        elif op == "or":
            z = z3.Or(a)
        elif op == "floor":
            if ABSTRACT_FLOOR[0]:
                z = z3.Real(f"floor!{n._h & 0xFFFFFFFFFFFF:x}")
            else:
                z = z3.ToReal(z3.ToInt(a[0]))
        elif op == "fn":
            name = n.args[0]
            if name == "sqrt":
                z = z3.Real(f"sqrt!{n._h & 0xFFFFFFFFFFFF:x}")
            else:
                f = z3.Function(name, *([z3.RealSort()] * (len(a) + 1)))
                z = f(*a)
        else:
            raise NotImplementedError(op)
        _Z3[n] = z
    _replay_side(t, ctx)
    return _Z3[t]


def _replay_side(t: T, ctx: Z3Ctx):
    """Instantiate definitional constraints / axioms for transcendental atoms occurring in t."""
    import z3

    for n in postorder([t]):
        if n.op == "floor" and ABSTRACT_FLOOR[0] and n not in ctx._fn_seen:
            ctx._fn_seen.add(n)
            z = _Z3[n]
            x = _Z3[kids(n)[0]]
            ctx.side += [x - 1 < z, z <= x]
            ctx.note("floor abstraction: x-1 < floor(x) <= x")
            continue
        if n.op != "fn" or n in ctx._fn_seen:
            continue
        ctx._fn_seen.add(n)
        name = n.args[0]
        z = _Z3[n]
        a = [_Z3[k] for k in kids(n)]
        if name == "sqrt":
            ctx.side.append(z3.Implies(a[0] >= 0, z3.And(z >= 0, z * z == a[0])))
            ctx.note("sqrt: x>=0 -> (r>=0 & r*r==x)")
        elif name in ("sin", "cos"):
            s = z3.Function("sin", z3.RealSort(), z3.RealSort())(a[0])
            c = z3.Function("cos", z3.RealSort(), z3.RealSort())(a[0])
            ctx.side.append(s * s + c * c == 1)
            ctx.note("sin^2+cos^2==1")
        elif name == "exp":
            ctx.side.append(z > 0)
            ctx.note("exp>0")
            k = kids(n)[0]
            if k.op == "fn" and k.args[0] == "log":
                ctx.side.append(z3.Implies(_Z3[kids(k)[0]] > 0, z == _Z3[kids(k)[0]]))
                ctx.note("exp(log x)==x for x>0")
        elif name == "log":
            k = kids(n)[0]
            if k.op == "fn" and k.args[0] == "exp":
                ctx.side.append(z == _Z3[kids(k)[0]])
                ctx.note("log(exp x)==x")
        elif name == "tanh":
            ctx.side += [z > -1, z < 1]
            ctx.note("|tanh|<1")
            k = kids(n)[0]
            if k.op == "fn" and k.args[0] == "atanh":
                x = _Z3[kids(k)[0]]
                ctx.side.append(z3.Implies(z3.And(x > -1, x < 1), z == x))
                ctx.note("tanh(atanh x)==x for |x|<1")
        elif name == "atanh":
            k = kids(n)[0]
            if k.op == "fn" and k.args[0] == "tanh":
                ctx.side.append(z == _Z3[kids(k)[0]])
                ctx.note("atanh(tanh x)==x")
        elif name == "sigmoid":
            ctx.side += [z > 0, z < 1]
            ctx.note("0<sigmoid<1")
        elif name == "tan":
            s = z3.Function("sin", z3.RealSort(), z3.RealSort())(a[0])
            c = z3.Function("cos", z3.RealSort(), z3.RealSort())(a[0])
            ctx.side += [z * c == s, s * s + c * c == 1]
            ctx.note("tan*cos==sin")


# ------------------------------------------------------------------ canonical polynomial (pre-solver normalisation)
class PolyTooLarge(Exception):
    pass


_POLY_DEADLINE = [None]


def set_poly_budget(seconds: Optional[float]):
    """Wall-clock budget for the polynomial normalisers (they raise PolyTooLarge when it is exhausted)."""
    import time as _t

    _POLY_DEADLINE[0] = None if seconds is None else _t.time() + seconds


def _poly_tick():
    import time as _t

    d = _POLY_DEADLINE[0]
    if d is not None and _t.time() > d:
        raise PolyTooLarge()


def shared_nodes(t: T, min_size: int) -> set:
    """Arithmetic sub-terms of t with at least two parents and at least `min_size` nodes (candidates for abstraction)."""
    order = postorder([t])
    indeg: Dict[T, int] = {}
    sz: Dict[T, int] = {}
    for n in order:
        ks = kids(n)
        sz[n] = 1 + sum(sz[k] for k in ks)  # tree size (upper bound of the DAG size): fine as a heuristic
        for k in ks:
            indeg[k] = indeg.get(k, 0) + 1
    return {n for n in order if indeg.get(n, 0) >= 2 and n.op in ("+", "sum", "*") and sz[n] >= min_size}


def polynomial(t: T, limit: int = 60000, opaque: Optional[set] = None) -> Dict[tuple, Fraction]:
    """Expand a division-free arithmetic term into a canonical polynomial {monomial: coefficient} over *atoms*: variables
    and every non-arithmetic sub-term (function applications, ite, floor, division nodes), identified by hash-consing.
    Monomials are sorted tuples ((atom_id, power), ...). sin(a)^2 is reduced to 1 - cos(a)^2. The zero polynomial means the
    term vanishes for every value of the atoms. Raises PolyTooLarge beyond `limit` monomials."""
    memo: Dict[T, Dict[tuple, Fraction]] = {}
    atoms: Dict[T, int] = {}
    sin_of: Dict[int, int] = {}  # atom id of sin(a) -> atom id of cos(a)

    def atom(n):
        k = atoms.get(n)
        if k is None:
            k = atoms[n] = len(atoms)
            if n.op == "fn" and n.args[0] == "sin":
                c = fn("cos", n.args[1])
                kc = atoms.get(c)
                if kc is None:
                    kc = atoms[c] = len(atoms)
                sin_of[k] = kc
        return k

    def padd(a, b, sb=1):
        r = dict(a)
        for m, c in b.items():
            v = r.get(m, 0) + sb * c
            if v == 0:
                r.pop(m, None)
            else:
                r[m] = v
        if len(r) > limit:
            raise PolyTooLarge()
        return r

    def mmul(m1, m2):
        if not m1:
            return m2
        if not m2:
            return m1
        d = dict(m1)
        for a, p in m2:
            d[a] = d.get(a, 0) + p
        return tuple(sorted(d.items()))

    def reduce_trig(m, c):
        """Rewrite sin^p (p >= 2) using sin^2 = 1 - cos^2; returns list of (monomial, coeff)."""
        for a, p in m:
            if p >= 2 and a in sin_of:
                rest = tuple((x, q) for x, q in m if x != a)
                lower = mmul(rest, ((a, p - 2),)) if p > 2 else rest
                out = reduce_trig(lower, c)
                out += reduce_trig(mmul(lower, ((sin_of[a], 2),)), -c)
                return out
        return [(m, c)]

    def pmul(a, b):
        if len(a) * len(b) > 40 * limit:
            raise PolyTooLarge()
        r: Dict[tuple, Fraction] = {}
        for m1, c1 in a.items():
            _poly_tick()
            for m2, c2 in b.items():
                m = mmul(m1, m2)
                c = c1 * c2
                items = reduce_trig(m, c) if sin_of and any(p >= 2 and x in sin_of for x, p in m) else [(m, c)]
                for mm, cc in items:
                    v = r.get(mm, 0) + cc
                    if v == 0:
                        r.pop(mm, None)
                    else:
                        r[mm] = v
        if len(r) > limit:
            raise PolyTooLarge()
        return r

    for n in postorder([t]):
        op = n.op
        if opaque is not None and n in opaque and n is not t:
            memo[n] = {((atom(n), 1),): Fraction(1)}
        elif op == "c":
            v = cval(n)
            if isinstance(v, bool):
                raise PolyTooLarge()
            memo[n] = {(): Fraction(v)} if v != 0 else {}
        elif op == "+":
            memo[n] = padd(memo[n.args[0]], memo[n.args[1]])
        elif op == "sum":
            r = {}
            for k in n.args:
                r = padd(r, memo[k])
            memo[n] = r
        elif op == "neg":
            memo[n] = {m: -c for m, c in memo[n.args[0]].items()}
        elif op == "*":
            memo[n] = pmul(memo[n.args[0]], memo[n.args[1]])
        elif n.sort == B:
            memo[n] = {}
        else:
            memo[n] = {((atom(n), 1),): Fraction(1)}
    return memo[t]


def rational_zero(t: T, limit: int = 40000, depth: int = 0) -> bool:
    """Sufficient test for `t == 0 wherever all divisors are non-zero`, for sums of many fractions with different
    denominators (where a single common denominator explodes): every division a/b becomes a * R_b with a reciprocal atom R_b;
    the expanded polynomial is grouped by the set of reciprocal atoms each monomial contains, and every group is cleared of
    its own denominators only (multiplied by prod_b b^(K_b - k)) and must expand to the zero polynomial. Groups vanishing
    separately imply the sum vanishes; the converse does not hold (then the caller falls back to the solver)."""
    recips: Dict[int, T] = {}
    sqrts: Dict[int, T] = {}

    memo: Dict[T, Dict[tuple, Fraction]] = {}
    atoms: Dict[object, int] = {}
    sin_of: Dict[int, int] = {}

    def atom(key):
        k = atoms.get(key)
        if k is None:
            k = atoms[key] = len(atoms)
        return k

    def padd(a, b):
        r = dict(a)
        for m, c in b.items():
            v = r.get(m, 0) + c
            if v == 0:
                r.pop(m, None)
            else:
                r[m] = v
        if len(r) > limit:
            raise PolyTooLarge()
        return r

    def mmul(m1, m2):
        if not m1:
            return m2
        if not m2:
            return m1
        d = dict(m1)
        for a, p in m2:
            d[a] = d.get(a, 0) + p
        return tuple(sorted(d.items()))

    def pmul(a, b):
        if len(a) * len(b) > 60 * limit:
            raise PolyTooLarge()
        r: Dict[tuple, Fraction] = {}
        for m1, c1 in a.items():
            _poly_tick()
            for m2, c2 in b.items():
                m = mmul(m1, m2)
                v = r.get(m, 0) + c1 * c2
                if v == 0:
                    r.pop(m, None)
                else:
                    r[m] = v
        if len(r) > limit:
            raise PolyTooLarge()
        return r

    def expand(root):
        for n in postorder([root]):
            if n in memo:
                continue
            op = n.op
            if op == "c":
                v = cval(n)
                if isinstance(v, bool):
                    raise PolyTooLarge()
                memo[n] = {(): Fraction(v)} if v != 0 else {}
            elif op == "+":
                memo[n] = padd(memo[n.args[0]], memo[n.args[1]])
            elif op == "sum":
                r = {}
                for k in n.args:
                    r = padd(r, memo[k])
                memo[n] = r
            elif op == "neg":
                memo[n] = {m: -c for m, c in memo[n.args[0]].items()}
            elif op == "*":
                memo[n] = pmul(memo[n.args[0]], memo[n.args[1]])
            elif op == "/":
                b = n.args[1]
                if isc(b):
                    memo[n] = {m: c / Fraction(cval(b)) for m, c in memo[n.args[0]].items()}
                else:
                    cf = Fraction(1)
                    while b.op == "*" and isc(b.args[0]):  # c * b' -> (1/c) * R_b'
                        cf *= Fraction(cval(b.args[0]))
                        b = b.args[1]
                    if b.op == "neg":
                        cf, b = -cf, b.args[0]
                    k = atom(("R", b))
                    recips[k] = b
                    memo[n] = pmul(memo[n.args[0]], {((k, 1),): 1 / cf})
            elif n.sort == B:
                memo[n] = {}
            else:
                k = atom(n)
                if op == "fn" and n.args[0] == "sqrt":
                    sqrts[k] = n.args[1]
                memo[n] = {((k, 1),): Fraction(1)}
        return memo[root]

    def reduce_sqrt(P):
        """sqrt(s)^2 -> s (the defining relation of the sqrt atoms)."""
        if not sqrts:
            return P
        for _ in range(8):
            todo = [(m, c) for m, c in P.items() if any(a in sqrts and p >= 2 for a, p in m)]
            if not todo:
                return P
            P = dict(P)
            for m, c in todo:
                del P[m]
                term = {tuple((a, p % 2 if a in sqrts else p) for a, p in m if not (a in sqrts and p % 2 == 0)): c}
                for a, p in m:
                    if a in sqrts and p >= 2:
                        base = expand(sqrts[a])
                        for _k in range(p // 2):
                            term = pmul(term, base)
                P = padd(P, term)
        return P

    P = reduce_sqrt(expand(t))
    for _round in range(4):
        if not P:
            return True
        if not any(a in recips for m in P for a, _ in m):
            return False
        groups: Dict[tuple, Dict[tuple, Fraction]] = {}
        for m, c in P.items():
            key = tuple(sorted(a for a, _ in m if a in recips))
            groups.setdefault(key, {})[m] = c
        rest: Dict[tuple, Fraction] = {}
        for key, G in groups.items():
            if not key:
                return False  # a non-zero polynomial part without any fraction cannot be cancelled by proper fraction groups (sufficient test fails)
            K = {a: max(dict(m).get(a, 0) for m in G) for a in key}
            dpow: Dict[tuple, Dict[tuple, Fraction]] = {}
            Q: Dict[tuple, Fraction] = {}
            for m, c in G.items():
                md = dict(m)
                term = {tuple((a, p) for a, p in m if a not in recips): c}
                for a in key:
                    e = K[a] - md.get(a, 0)
                    if e:
                        pw = dpow.get((a, e))
                        if pw is None:
                            base = expand(recips[a])
                            pw = {(): Fraction(1)}
                            for _ in range(e):
                                pw = pmul(pw, base)
                            dpow[(a, e)] = pw
                        term = pmul(term, pw)
                Q = padd(Q, term)
            Q = reduce_sqrt(Q)
            if Q:
                # the cleared group still contains reciprocal atoms (nested divisions): iterate on it; otherwise it is non-zero
                if not any(a in recips for m in Q for a, _ in m):
                    return False
                if not rational_zero_poly(Q, recips, expand, pmul, padd, limit):
                    return False
        return True
    return False


def rational_zero_poly(P, recips, expand, pmul, padd, limit, depth=0):
    """Helper of rational_zero: the same grouping test applied to an already expanded polynomial."""
    if not P:
        return True
    if depth > 3:
        return False
    groups: Dict[tuple, Dict[tuple, Fraction]] = {}
    for m, c in P.items():
        key = tuple(sorted(a for a, _ in m if a in recips))
        groups.setdefault(key, {})[m] = c
    for key, G in groups.items():
        if not key:
            return False
        K = {a: max(dict(m).get(a, 0) for m in G) for a in key}
        Q: Dict[tuple, Fraction] = {}
        for m, c in G.items():
            md = dict(m)
            term = {tuple((a, p) for a, p in m if a not in recips): c}
            for a in key:
                e = K[a] - md.get(a, 0)
                if e:
                    base = expand(recips[a])
                    for _ in range(e):
                        term = pmul(term, base)
            Q = padd(Q, term)
        if Q:
            if not any(a in recips for m in Q for a, _ in m):
                return False
            if not rational_zero_poly(Q, recips, expand, pmul, padd, limit, depth + 1):
                return False
    return True



# ------------------------------------------------------------------ floating-point (binary32) interpretation of terms
def to_z3_fp(roots: List[T], names: Optional[dict] = None):
    """Translate terms to z3 FloatingPoint (Float32, round-nearest-even) expressions: every real variable is a float32,
    every constant the nearest float32, n-ary sums are accumulated left to right. Meant for terms built in RAW mode from
    float32 kernels (element-wise arithmetic; the accumulation order / FMA use of matrix kernels is an assumption, which is
    why every FP model is replayed on the real code). Returns (list of z3 expressions, {var name: z3 const})."""
    import z3

    F32 = z3.Float32()
    rm = z3.RNE()
    memo: Dict[T, object] = {}
    vars_: Dict[str, object] = {} if names is None else names
    for n in postorder(roots):
        op = n.op
        a = [memo[k] for k in kids(n)]
        if op == "c":
            v = cval(n)
            if isinstance(v, bool):
                z = z3.BoolVal(v)
            else:
                z = z3.fpRealToFP(rm, z3.RealVal(f"{v.numerator}/{v.denominator}"), F32)
                z = z3.simplify(z)
        elif op == "v":
            name, kind = n.args
            if kind == "bool":
                z = z3.Bool(name)
            else:
                z = vars_.get(name)
                if z is None:
                    z = vars_[name] = z3.FP(name, F32)
        elif op == "true":
            z = z3.BoolVal(True)
        elif op == "false":
            z = z3.BoolVal(False)
        elif op == "+":
            z = z3.fpAdd(rm, a[0], a[1])
        elif op == "sum":
            z = a[0]
            for x in a[1:]:
                z = z3.fpAdd(rm, z, x)
        elif op == "*":
            z = z3.fpMul(rm, a[0], a[1])
        elif op == "/":
            z = z3.fpDiv(rm, a[0], a[1])
        elif op == "neg":
            z = z3.fpNeg(a[0])
        elif op == "ite":
            z = z3.If(a[0], a[1], a[2])
        elif op == "<":
            z = z3.fpLT(a[0], a[1])
        elif op == "<=":
            z = z3.fpLEQ(a[0], a[1])
        elif op == "==":
            z = (a[0] == a[1]) if n.args[0].sort == B else z3.fpEQ(a[0], a[1])
        elif op == "not":
            z = z3.Not(a[0])
        elif op == "and":
            z = z3.And(*a)
        elif op == "or":
            z = z3.Or(*a)
        elif op == "floor":
            z = z3.fpRoundToIntegral(z3.RTN(), a[0])
        elif op == "fn" and n.args[0] == "sqrt":
            z = z3.fpSqrt(rm, memo[n.args[1]])
        else:
            raise NotImplementedError(f"floating-point translation of {op} {n.args[0] if op == 'fn' else ''}")
        memo[n] = z
    return [memo[r] for r in roots], vars_
