"""Deciding obligations with z3 (cvc5 binary as second opinion in thorough runs)."""
from __future__ import annotations

import os
import subprocess
import tempfile
import time
from fractions import Fraction
from typing import Dict, List, Optional, Sequence, Tuple

from . import terms as tm
from .terms import T


class Stats:
    def __init__(self):
        self.queries = 0
        self.unsat = 0
        self.sat = 0
        self.unknown = 0
        self.time = 0.0
        self.max_time = 0.0
        self.lemma_queries = 0
        self.lemma_time = 0.0
        self.den_queries = 0
        self.normalised = 0  # goals that became `0 != 0` after polynomial normalisation (no solver call needed)
        self.cvc5_queries = 0
        self.cvc5_disagree = 0
        self.axioms: Dict[str, int] = {}

    def merge_axioms(self, ctx: tm.Z3Ctx):
        for k, v in ctx.axioms_used.items():
            self.axioms[k] = self.axioms.get(k, 0) + v

    def as_dict(self):
        return dict(self.__dict__)


def _model_value(m, z):
    import z3

    v = m.eval(z, model_completion=True)
    if z3.is_true(v):
        return True
    if z3.is_false(v):
        return False
    if z3.is_int_value(v):
        return Fraction(v.as_long())
    if z3.is_rational_value(v):
        return Fraction(v.numerator_as_long(), v.denominator_as_long())
    if z3.is_algebraic_value(v):
        a = v.approx(30)
        return Fraction(a.numerator_as_long(), a.denominator_as_long())
    try:
        return Fraction(str(v))
    except Exception:
        return None


class Z3Solver:
    def __init__(self, timeout_ms: int = 20000, stats: Optional[Stats] = None, cvc5: bool = False):
        self.timeout_ms = timeout_ms
        self.stats = stats or Stats()
        self.cvc5 = cvc5
        self.lemma_cache: Dict[Tuple[T, T], bool] = {}
        self.den_cache: Dict[Tuple[T, ...], str] = {}

    # -------------------------------------------------------------- raw
    def check(self, assertions: Sequence[T], timeout_ms: Optional[int] = None, kind: str = "main", strict_ints: bool = False, abstract_floor=None):
        """Returns (status, model dict or None, seconds). status in {'unsat','sat','unknown'}."""
        import z3

        if abstract_floor is None and not strict_ints:
            has_floor = any(n.op == "floor" for n in tm.postorder(list(assertions)))
            if has_floor:
                # abstraction first: floor as a bounded fresh real keeps the query in QF_NRA; unsat is sound
                st, m, dt = self.check(assertions, timeout_ms, kind, strict_ints=False, abstract_floor=True)
                if st == "unsat":
                    return st, m, dt
                st2, m2, dt2 = self.check(assertions, timeout_ms, kind, strict_ints=False, abstract_floor=False)
                return st2, m2, dt + dt2
        tm.set_abstract_floor(bool(abstract_floor))
        assertions, trig_back = tm.rationalize_trig(list(assertions))

        fv = tm.free_vars(assertions)
        has_int = any(k == "int" for k in fv.values())
        if not strict_ints:
            tm.set_relax_ints(True)
        else:
            tm.set_relax_ints(False)
        ctx = tm.Z3Ctx()
        zs = [tm.to_z3(a, ctx) for a in assertions]
        ops = {n.op for n in tm.postorder(list(assertions))}
        pure = not (({"floor", "fn"} if not abstract_floor else {"fn"}) & ops) and not (has_int and strict_ints)
        s = z3.SolverFor("QF_NRA") if pure else z3.Solver()
        s.set("timeout", int(timeout_ms or self.timeout_ms))
        for z in zs:
            s.add(z)
        for z in ctx.side:
            s.add(z)
        t0 = time.time()
        try:
            r = s.check()
        except z3.Z3Exception as e:  # pragma: no cover
            r = z3.unknown
        if r == z3.unknown and kind in ("main", "den"):
            # second opinion from the other z3 front end (tactic portfolio vs. nlsat) with a different seed
            s2 = z3.Solver() if pure else z3.SolverFor("QF_NRA") if not ({"floor", "fn"} & ops) else z3.Solver()
            s2.set("timeout", int(timeout_ms or self.timeout_ms))
            s2.set("random_seed", 7)
            for z in zs:
                s2.add(z)
            for z in ctx.side:
                s2.add(z)
            try:
                r2 = s2.check()
            except z3.Z3Exception:
                r2 = z3.unknown
            if r2 != z3.unknown:
                r, s = r2, s2
        dt = time.time() - t0
        st = self.stats
        st.queries += 1
        st.time += dt
        st.max_time = max(st.max_time, dt)
        st.merge_axioms(ctx)
        status = "unsat" if r == z3.unsat else ("sat" if r == z3.sat else "unknown")
        setattr(st, status, getattr(st, status) + 1)
        model = None
        if status == "sat":
            m = s.model()
            model = {}
            for name, kind_ in fv.items():
                z = z3.Bool(name) if kind_ == "bool" else (z3.Int(name) if (kind_ == "int" and strict_ints) else z3.Real(name))
                model[name] = _model_value(m, z)
            import math as _math

            for tname, x in trig_back.items():
                if x.op == "v" and model.get(tname) is not None:
                    model[x.args[0]] = Fraction(2 * _math.atan(float(model[tname]))).limit_denominator(10**9)
            if has_int and not strict_ints and any(kind_ == "int" and (model[name] is None or model[name].denominator != 1) for name, kind_ in fv.items()):
                # relaxed model is not integral: decide again with integer sorts
                tm.set_relax_ints(True)
                tm.set_abstract_floor(False)
                st2, m2, dt2 = self.check(assertions, timeout_ms, kind, strict_ints=True, abstract_floor=False)
                tm.set_relax_ints(True)
                return st2, m2, dt + dt2
        tm.set_relax_ints(True)
        tm.set_abstract_floor(False)
        if self.cvc5 and status in ("unsat", "sat") and kind == "main" and self._cvc5_budget():
            other = self._cvc5(s)
            if other in ("unsat", "sat"):
                st.cvc5_queries += 1
                if other != status:
                    st.cvc5_disagree += 1
                    status = "unknown"
        return status, model, dt

    def _cvc5_budget(self) -> bool:
        """Second-opinion budget per obligation: the first 8 decided main queries, 90 s in total (cvc5 1.0.3 is slow on NRA)."""
        n = getattr(self, "_cvc5_n", 0)
        t = getattr(self, "_cvc5_t", 0.0)
        return n < 8 and t < 90.0

    def _cvc5(self, s) -> str:
        t0 = time.time()
        self._cvc5_n = getattr(self, "_cvc5_n", 0) + 1
        try:
            work = os.environ.get("VERIF_WORK") or os.path.join(os.path.dirname(os.path.dirname(os.path.abspath(__file__))), "work")
            os.makedirs(work, exist_ok=True)
            with tempfile.NamedTemporaryFile("w", suffix=".smt2", delete=False, dir=work) as f:
                f.write("(set-logic ALL)\n" + s.to_smt2())
                path = f.name
            try:
                lim = min(max(self.timeout_ms, 1000), 15000)
                p = subprocess.run(["cvc5", f"--tlimit={lim}", path], capture_output=True, text=True, timeout=lim / 1000 + 10)
                self._cvc5_t = getattr(self, "_cvc5_t", 0.0) + time.time() - t0
                out = p.stdout.strip().splitlines()
                if "(error" in p.stdout or "(error" in p.stderr:
                    return "error"
                return out[0] if out else "unknown"
            finally:
                os.unlink(path)
        except Exception:
            return "unknown"

    # -------------------------------------------------------------- lemmas (no preconditions)
    def poly_equal(self, a: T, b: T) -> bool:
        if a is b:
            return True
        key = (a, b)
        r = self.lemma_cache.get(key)
        if r is not None:
            return r
        goal = tm.not_(tm.eq(tm.ratfun_cross(a, b), tm.ZERO))
        t0 = time.time()
        status, _, dt = self.check([goal], timeout_ms=min(self.timeout_ms, 10000), kind="lemma")
        self.stats.lemma_queries += 1
        self.stats.lemma_time += time.time() - t0
        r = status == "unsat"
        self.lemma_cache[key] = r
        return r

    # -------------------------------------------------------------- obligations
    def denominators_nonzero(self, pre: Sequence[T], roots: Sequence[T]):
        """For every divisor d in roots: Pre => d != 0.  Returns (ok, status, model, culprit)."""
        dens = tm.denominators(list(roots))
        pre_key = tuple(pre)
        for d in dens:
            if tm.isc(d):
                if tm.cval(d) == 0:
                    return False, "sat", {}, d
                continue
            key = (d,) + pre_key
            st = self.den_cache.get(key)
            if st is None:
                (nd, _dd), = tm.ratfun([d])
                status, model, _ = self.check(list(pre) + [tm.eq(nd, tm.ZERO)], kind="den")
                self.stats.den_queries += 1
                st = (status, model)
                self.den_cache[key] = st
            if st[0] != "unsat":
                return False, st[0], st[1], d
        return True, "unsat", None, None

    def prove_equal(self, pre: Sequence[T], lhs: T, rhs: T, skip_den: bool = False, norm_budget: float = 0.3):
        """Decide Pre => lhs == rhs.  Returns dict(status, model, why)."""
        if lhs is rhs:
            return {"status": "unsat", "trivial": True}
        if lhs.sort == tm.B or rhs.sort == tm.B:
            goal = tm.not_(tm.eq(tm.boo(lhs), tm.boo(rhs)))
            status, model, dt = self.check(list(pre) + [goal])
            return {"status": status, "model": model}
        ok, dst, dmodel, culprit = (True, None, None, None) if skip_den else self.denominators_nonzero(pre, [lhs, rhs])
        if not ok:
            return {"status": "den-" + dst, "model": dmodel, "why": f"divisor may be zero: {tm.show(culprit, 160)}"}
        cross = tm.ratfun_cross(lhs, rhs)
        goal = tm.not_(tm.eq(cross, tm.ZERO))
        if goal is tm.FALSE:
            return {"status": "unsat", "trivial": True}
        # pre-solver normalisation: expand the division-free difference into a canonical polynomial over its atoms; when it is
        # the zero polynomial the goal `0 != 0` is false for every value of the atoms (counted as a normalised, trivial query)
        # pre-solver normalisation under a small time budget; the solver; then normalisation again with a larger budget
        if self._normalise(lhs, rhs, cross, norm_budget):
            return {"status": "unsat", "trivial": True, "normalised": True}
        status, model, dt = self.check(list(pre) + [goal])
        if status == "unknown" and self._normalise(lhs, rhs, cross, 20.0):
            return {"status": "unsat", "trivial": True, "normalised": True}
        return {"status": status, "model": model}

    def _normalise(self, lhs: T, rhs: T, cross: T, budget: float) -> bool:
        """Expand the difference into a canonical polynomial over its atoms; the zero polynomial means the goal is `0 != 0`
        for every value of the atoms (counted as a normalised, trivial query). Sufficient, never necessary."""
        tm.set_poly_budget(budget)
        try:
            # sums of many fractions: per-denominator groups instead of one common denominator
            try:
                if tm.size([lhs, rhs]) < 20000 and tm.denominators([lhs, rhs]) and tm.rational_zero(tm.sub(lhs, rhs)):
                    self.stats.normalised += 1
                    return True
            except (tm.PolyTooLarge, RecursionError):
                pass
            # shared sub-terms may be abstracted by fresh atoms first (an identity that holds with sub-terms treated as
            # independent unknowns holds a fortiori); the full expansion is the last attempt
            if tm.size([cross]) < 20000:
                for thr in (6, 24, 96, None):
                    try:
                        opaque = tm.shared_nodes(cross, thr) if thr is not None else None
                        if thr is not None and not opaque:
                            continue
                        if not tm.polynomial(cross, limit=20000 if thr is not None else 60000, opaque=opaque):
                            self.stats.normalised += 1
                            return True
                    except (tm.PolyTooLarge, RecursionError):
                        continue
            return False
        finally:
            tm.set_poly_budget(None)

    def prove(self, pre: Sequence[T], goal: T):
        """Decide Pre => goal (boolean term)."""
        ok, dst, dmodel, culprit = self.denominators_nonzero(pre, [goal])
        if not ok:
            return {"status": "den-" + dst, "model": dmodel, "why": f"divisor may be zero: {tm.show(culprit, 160)}"}
        (g, _), = tm.ratfun([goal])
        status, model, dt = self.check(list(pre) + [tm.not_(g)])
        return {"status": status, "model": model}

    # -------------------------------------------------------------- guard simplification
    def simplify_guards(self, pre: Sequence[T], roots: Sequence[T], evalf=None) -> List[T]:
        """Replace ite(c, a, b) by a (resp. b) when the solver shows Pre => c (resp. Pre => not c).
        Every replacement is a cached, solver-discharged lemma."""
        if not hasattr(self, "guard_cache"):
            self.guard_cache = {}
            self.guard_lemmas = 0
            self.guard_tries = {}
            self.guard_pre_len = {}
        pre = list(pre)
        pre_key = tuple(pre)
        memo: Dict[T, T] = {}
        for n in tm.postorder(list(roots)):
            ks = tm.kids(n)
            if not ks:
                memo[n] = n
                continue
            new = [memo[k] for k in ks]
            r = n if all(x is y for x, y in zip(new, ks)) else tm.rebuild(n, new)
            if r.op == "ite":
                c = r.args[0]
                key = c  # preconditions only grow along a path, so earlier decisions stay valid
                dec = self.guard_cache.get(key, "?")
                if dec is None and self.guard_pre_len.get(key, -1) < len(pre) and self.guard_tries.get(key, 0) < 2:
                    dec = "?"  # undecided under a smaller precondition: one more attempt
                if dec == "?":
                    dec = None
                    guess = None
                    if evalf is not None:
                        try:
                            guess = bool(evalf(c))
                        except Exception:
                            guess = None
                    for val in ([guess] if guess is not None else [True, False]):
                        goal = tm.not_(c) if val else c
                        self.guard_tries[key] = self.guard_tries.get(key, 0) + 1
                        self.guard_pre_len[key] = len(pre)
                        status, _, _ = self.check(pre + [goal], timeout_ms=1500, kind="guard")
                        self.guard_lemmas += 1
                        if status == "unsat":
                            dec = val
                            break
                    self.guard_cache[key] = dec
                if dec is True:
                    r = r.args[1]
                elif dec is False:
                    r = r.args[2]
            memo[n] = r
        return [memo[r] for r in roots]

    def satisfiable(self, assertions: Sequence[T]):
        status, model, dt = self.check(list(assertions))
        return status, model
