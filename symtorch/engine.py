"""Concolic ATen-level engine: real torch code runs on real tensors under a TorchDispatchMode;
every tensor element may additionally carry a symbolic term (see DESIGN.md section 2.1).

Terms live in a shadow object array per *untyped storage*; views, in-place writes through views,
`Tensor._make_subclass` / `as_subclass` aliases therefore see the same terms.
"""
from __future__ import annotations

import math
import sys
import weakref
from fractions import Fraction
from typing import Any, Dict, List, Optional

import numpy as np
import torch
from torch.utils._python_dispatch import TorchDispatchMode
from torch.utils._pytree import tree_flatten, tree_map

from . import terms as tm
from .terms import T

aten = torch.ops.aten


class UnsupportedOp(Exception):
    pass


class ConsistencyError(Exception):
    """Transfer function disagrees with the real kernel at the witness (translator bug)."""


class PathEntry:
    __slots__ = ("kind", "term", "outcome", "where", "forced", "strong")

    def __init__(self, kind, term, outcome, where, strong=None):
        self.kind = kind  # 'branch' | 'concretize' | 'assume' | 'cell'
        self.term = term
        self.outcome = outcome
        self.where = where
        self.forced = None
        self.strong = strong  # stronger positive form (exact equality for allclose)

    def as_term(self) -> T:
        if self.kind in ("branch", "assume", "cell"):
            if self.outcome and self.strong is not None and ":__eq__:" in self.where:
                # equality tests (Grid.__eq__, Cube.__eq__): the explored sub-path is "exactly equal";
                # approximately-but-not-exactly equal objects are outside the claim
                return self.strong
            return self.term if self.outcome else tm.not_(self.term)
        return tm.eq(self.term, tm.const(self.outcome))

    def equalities(self):
        """(a, b) pairs asserted equal by this entry (equality tests on their true side)."""
        if self.kind == "branch" and self.outcome and self.strong is not None and ":__eq__:" in self.where:
            conj = self.strong.args if self.strong.op == "and" else (self.strong,)
            return [(c.args[0], c.args[1]) for c in conj if c.op in ("==", "iff")]
        return []

    def flipped(self) -> T:
        """Condition of the other side of this branch (allclose -> exact equality)."""
        if self.outcome:
            return tm.not_(self.term)
        return self.strong if self.strong is not None else self.term


def _where() -> str:
    """Innermost deepali frame (file:function:line) of the current Python stack."""
    f = sys._getframe(2)
    n = 0
    while f is not None and n < 60:
        fn = f.f_code.co_filename
        if "/deepali/" in fn:
            return f"{fn.split('/deepali/')[-1]}:{f.f_code.co_name}:{f.f_lineno}"
        f = f.f_back
        n += 1
    return "?"


def _deepali_frames(limit=6) -> List[str]:
    f = sys._getframe(2)
    out = []
    n = 0
    while f is not None and n < 80 and len(out) < limit:
        fn = f.f_code.co_filename
        if "/deepali/" in fn:
            qual = getattr(f.f_code, "co_qualname", f.f_code.co_name)
            out.append(f"{fn.split('/deepali/')[-1]}:{qual}")
        f = f.f_back
        n += 1
    return out


class SymFloat(float):
    """Python float that remembers the term it was concretised from (for stubs at C boundaries)."""

    def __new__(cls, value, term):
        o = float.__new__(cls, value)
        o.term = term
        return o


class SymInt(int):
    def __new__(cls, value, term):
        o = int.__new__(cls, value)
        o.term = term
        return o


_ORIG_TOLIST = torch.Tensor.tolist


class Engine(TorchDispatchMode):
    def __enter__(self):
        eng = self

        def tolist(t):
            vals = _ORIG_TOLIST(t)
            if eng._suspend or not eng.has(t):
                return vals
            terms = eng.terms(t)

            def wrap(v, tt):
                if isinstance(v, list):
                    return [wrap(x, y) for x, y in zip(v, tt)]
                if tt.op in ("c", "true", "false") or isinstance(v, bool):
                    if not isinstance(v, bool) or tt.op in ("true", "false"):
                        return v
                eng.concretize(tt, v)
                if isinstance(v, bool):
                    return v
                return SymFloat(v, tt) if isinstance(v, float) else SymInt(v, tt)

            return wrap(vals, terms if terms.ndim else terms[()])

        torch.Tensor.tolist = tolist
        return super().__enter__()

    def __exit__(self, *a):
        torch.Tensor.tolist = _ORIG_TOLIST
        return super().__exit__(*a)

    def __init__(self, check: bool = True, check_tol: float = 2e-4):
        super().__init__()
        self.shadow: Dict[int, Any] = {}
        self._keep: List[Any] = []  # storages kept alive so that keys are never recycled
        self.env: Dict[str, float] = {}  # witness (float)
        self.envq: Dict[str, Fraction] = {}  # witness (exact)
        self.kinds: Dict[str, str] = {}
        self.pc: List[PathEntry] = []
        self.ops: Dict[str, int] = {}
        self.sym_ops: Dict[str, int] = {}
        self.functions: Dict[str, int] = {}
        self.check = check
        self.check_tol = check_tol
        self.checked = 0
        self._memo: Dict[T, object] = {}
        self._suspend = 0
        self.gs_lemmas = {"queries": 0, "time": 0.0, "collapsed": 0, "witness_cell": 0}
        self.lemma_solver = None  # callable(a, b) -> bool (set by solve layer)
        self.gs_mode = "auto"  # 'auto' | 'witness'
        self.notes: List[str] = []

    # ------------------------------------------------------------------ variables
    def new_var(self, name: str, value, kind: str = "real") -> T:
        if kind == "bool":
            self.env[name] = bool(value)
            self.envq[name] = bool(value)
        else:
            q = value if isinstance(value, Fraction) else (Fraction(value) if isinstance(value, int) else tm.snap32(float(value)))
            self.envq[name] = q
            self.env[name] = float(q)
        self.kinds[name] = kind
        return tm.var(name, kind)

    def symbolic(self, t: torch.Tensor, prefix: str, kind: str = "real") -> torch.Tensor:
        """Attach fresh variables to every element of t (witness = current values, snapped)."""
        flat = t.detach().reshape(-1).tolist()
        arr = np.empty(len(flat), dtype=object)
        for i, x in enumerate(flat):
            arr[i] = self.new_var(f"{prefix}{i}" if len(flat) > 1 or t.ndim > 0 else prefix, x, kind)
        self.set_terms(t, arr.reshape(tuple(t.shape)))
        # make the stored witness exactly the snapped value where representable
        with self.suspended():
            vals = [self.env[a.args[0]] for a in arr]
            t.detach().copy_(torch.tensor(vals, dtype=torch.float64).reshape(t.shape).to(t.dtype))
        return t

    def suspended(self):
        eng = self

        class _S:
            def __enter__(self_):
                eng._suspend += 1

            def __exit__(self_, *a):
                eng._suspend -= 1

        return _S()

    # ------------------------------------------------------------------ shadow storage
    @staticmethod
    def _key(t: torch.Tensor) -> int:
        return t.untyped_storage()._cdata

    def _base(self, t: torch.Tensor, create: bool = False):
        st = t.untyped_storage()
        k = st._cdata
        ent = self.shadow.get(k)
        n = st.nbytes() // max(t.element_size(), 1)
        if ent is not None and len(ent) != n:
            if len(ent) < n:  # storage was resized
                new = np.empty(n, dtype=object)
                new[: len(ent)] = ent
                self.shadow[k] = ent = new
            # smaller view of a differently typed alias: keep (rare)
        if ent is None:
            if not create:
                return None
            ent = np.empty(n, dtype=object)
            self.shadow[k] = ent
            self._keep.append(st)
        return ent

    def _view(self, t: torch.Tensor, create: bool = False):
        if t.numel() == 0:
            return None
        base = self._base(t, create)
        if base is None:
            return None
        off = t.storage_offset()
        return np.lib.stride_tricks.as_strided(
            base[off:], shape=tuple(t.shape), strides=tuple(s * base.itemsize for s in t.stride()), writeable=True
        )

    def has(self, t) -> bool:
        if not isinstance(t, torch.Tensor) or t.numel() == 0 or t.is_meta:
            return False
        try:
            v = self._view(t)
        except Exception:
            return False
        if v is None:
            return False
        for x in v.flat:
            if x is not None:
                return True
        return False

    def set_terms(self, t: torch.Tensor, arr) -> None:
        if t.numel() == 0:
            return
        v = self._view(t, create=True)
        arr = np.asarray(arr, dtype=object)
        if arr.shape != tuple(t.shape):
            arr = np.broadcast_to(arr, tuple(t.shape))
        # constants are stored as None (lazy lifting) to keep `has` meaningful
        if v.shape == ():
            x = arr[()]
            v[()] = None if (isinstance(x, T) and x.op in ("c", "true", "false")) else x
            return
        it = np.nditer([arr], flags=["multi_index", "refs_ok"])
        for _ in it:
            idx = it.multi_index
            x = arr[idx]
            v[idx] = None if (isinstance(x, T) and x.op in ("c", "true", "false")) else x

    def clear_terms(self, t: torch.Tensor) -> None:
        v = self._view(t)
        if v is not None:
            v[...] = None

    def terms(self, t: torch.Tensor) -> np.ndarray:
        """Object array of terms for tensor t (constants lifted from the concrete values)."""
        shape = tuple(t.shape)
        out = np.empty(shape, dtype=object)
        if t.numel() == 0:
            return out
        sh = self._view(t)
        with self.suspended():
            td = t.detach()
            if td.dtype == torch.bfloat16 or td.dtype == torch.float16:
                td = td.float()
            vals = td.cpu().numpy() if not td.is_conj() else td.resolve_conj().cpu().numpy()
        isf = t.dtype.is_floating_point
        isb = t.dtype == torch.bool
        flat_out = out.reshape(-1) if out.ndim else None
        if out.ndim == 0:
            s = sh[()] if sh is not None else None
            out[()] = s if s is not None else self._lift(vals[()].item(), isf, isb)
            return out
        shf = None if sh is None else [x for x in sh.flat]
        vf = np.ascontiguousarray(vals).reshape(-1).tolist()
        cache = {}
        for i, v in enumerate(vf):
            s = shf[i] if shf is not None else None
            if s is None:
                s = cache.get(v)
                if s is None:
                    s = cache[v] = self._lift(v, isf, isb)
            flat_out[i] = s
        return out

    @staticmethod
    def _lift(v, isf, isb) -> T:
        if isb:
            return tm.TRUE if v else tm.FALSE
        if isf:
            if v != v or v in (math.inf, -math.inf):
                return tm.var(f"nonfinite!{'nan' if v != v else ('pinf' if v > 0 else 'ninf')}")
            return tm.T("c", (tm.snap32(v),), tm.R)
        return tm.const(int(v))

    # ------------------------------------------------------------------ witness evaluation
    def evalf(self, t: T):
        return tm.evalf(t, self.env, self._memo)

    def evalq(self, t: T):
        return tm.evalq(t, self.envq)

    def check_tensor(self, t: torch.Tensor, what: str = "", amplify: float = 1.0) -> None:
        if not self.check:
            return
        sh = self._view(t)
        if sh is None:
            return
        with self.suspended():
            td = t.detach()
            vals = (td.double() if td.dtype != torch.bool else td).cpu().numpy()
        n = 0
        for idx in np.ndindex(*vals.shape) if vals.ndim else [()]:
            s = sh[idx]
            if s is None:
                continue
            n += 1
            v = self.evalf(s)
            a = vals[idx]
            if isinstance(v, bool) or t.dtype == torch.bool:
                ok = bool(v) == bool(a)
            else:
                a = float(a)
                if v != v or a != a or abs(v) == math.inf or abs(a) == math.inf:
                    ok = (v != v and a != a) or v == a or True  # non-finite: not compared
                else:
                    ok = abs(v - a) <= self.check_tol * (1.0 + abs(v) + abs(a)) + (2.0**-22) * (amplify - 1.0 if amplify > 1.0 else 0.0)
            if not ok:
                raise ConsistencyError(f"{what}: term evaluates to {v!r} but kernel produced {a!r} at {idx}; term={tm.show(s, 300)}")
            if n > 4096:
                break
        self.checked += n

    # ------------------------------------------------------------------ path condition
    def branch(self, term: T, outcome: bool, kind: str = "branch", strong: Optional[T] = None) -> None:
        term = tm.boo(term)
        if term is tm.TRUE or term is tm.FALSE:
            return
        self.pc.append(PathEntry(kind, term, bool(outcome), _where(), strong))

    def concretize(self, term: T, value) -> None:
        if term.op in ("c", "true", "false"):
            return
        if term.sort == tm.B:
            self.pc.append(PathEntry("branch", term, bool(value), _where()))
        else:
            self.pc.append(PathEntry("concretize", term, tm.snap32(float(value)) if isinstance(value, float) else Fraction(int(value)), _where()))

    def assume(self, term: T) -> None:
        self.pc.append(PathEntry("assume", tm.boo(term), True, "harness"))

    def pc_terms(self) -> List[T]:
        return [e.as_term() for e in self.pc]

    # ------------------------------------------------------------------ dispatch
    def __torch_dispatch__(self, func, types, args=(), kwargs=None):
        kwargs = kwargs or {}
        if self._suspend:
            return func(*args, **kwargs)
        from .ops import dispatch_symbolic

        name = func.__name__ if hasattr(func, "__name__") else str(func)
        self.ops[name] = self.ops.get(name, 0) + 1
        flat, _ = tree_flatten((args, kwargs))
        tens = [a for a in flat if isinstance(a, torch.Tensor)]
        if not any(self.has(a) for a in tens):
            out = func(*args, **kwargs)
            self._clear_written(func, args, kwargs)
            return out
        self.sym_ops[name] = self.sym_ops.get(name, 0) + 1
        for fr in _deepali_frames():
            self.functions[fr] = self.functions.get(fr, 0) + 1
        return dispatch_symbolic(self, func, args, kwargs)

    def _clear_written(self, func, args, kwargs) -> None:
        sch = func._schema
        for i, a in enumerate(sch.arguments):
            if a.alias_info is not None and a.alias_info.is_write:
                v = args[i] if i < len(args) else kwargs.get(a.name)
                if isinstance(v, torch.Tensor):
                    self.clear_terms(v)
                elif isinstance(v, (list, tuple)):
                    for x in v:
                        if isinstance(x, torch.Tensor):
                            self.clear_terms(x)
