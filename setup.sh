#!/bin/bash
# Creates /verif/.venv: an overlay on /venv (torch, deepali deps) plus z3-solver and crosshair-tool
# from the offline wheelhouse. Idempotent; every check calls it (checks may see committed files only).
set -e
HERE="$(cd "$(dirname "$0")" && pwd)"
V="$HERE/.venv"
if [ -x "$V/bin/python" ] && "$V/bin/python" -c "import z3, crosshair, torch" >/dev/null 2>&1; then exit 0; fi
(
  flock 9
  if [ -x "$V/bin/python" ] && "$V/bin/python" -c "import z3, crosshair, torch" >/dev/null 2>&1; then exit 0; fi
  rm -rf "$V"
  /venv/bin/python -m venv "$V"
  SP="$("$V/bin/python" -c 'import site; print(site.getsitepackages()[0])')"
  printf "import site; site.addsitedir('/venv/lib/python3.12/site-packages')\n" > "$SP/zz_base_venv.pth"
  PIP_NO_INDEX=1 "$V/bin/pip" install -q --no-index --find-links /opt/veriftools/wheels z3-solver crosshair-tool >/dev/null
  "$V/bin/python" -c "import z3, crosshair, torch"
) 9>"$HERE/.venv.lock"
