#!/usr/bin/env python3
"""Prints a markdown table of the seeded changes (seeded/*/meta.json) and which check detects each."""
import glob
import json
import re

rows = []
for p in sorted(glob.glob("/verif/seeded/C*/meta.json")):
    m = json.load(open(p))
    sid = p.split("/")[-2]
    note = m.get("needs_to_manifest", "").replace("\n", " ")
    mm = re.search(r"\(([^()]*?(?:\.py)[^()]*)\)", note)
    site = mm.group(1) if mm else ", ".join(m.get("files_changed", []))
    site = site.replace("src/deepali/", "")[:90]
    det = m.get("detected_by")
    extra = m.get("also_detected_by") or ""
    d = f"{det['check']} ({det['violation_lines']} lines)" if det else "not detected by its own check"
    if extra:
        d += f"; {extra}"
    rows.append(f"| {sid} | {site} | {d} |")
print("| id | change site | detected by (quick tier, exit 1 + replayed VIOLATION) |")
print("|---|---|---|")
print("\n".join(rows))
