#!/bin/bash
# usage: tools_sweep.sh <seed> [tier]  -- runs every registered check once, prints exit code and summary line
SEED=${1:-0}; TIER=${2:-quick}
cd /verif
for c in checks/c??.py; do
  id=$(basename $c .py | tr c C)
  t0=$(date +%s)
  out=$(VERIF_SEED=$SEED VERIF_TIER=$TIER ./check $id 2>&1); rc=$?
  t1=$(date +%s)
  echo "$id seed=$SEED tier=$TIER exit=$rc wall=$((t1-t0))s :: $(echo "$out" | grep "^$id \[" | tail -1)"
  echo "$out" | grep -E "^VIOLATION|KNOWN-FINDING|HARNESS|INCONCLUSIVE" | cut -c1-300 | head -5
done
